#!/bin/bash
# usage: tools/eval_round.sh <offset> <P> <prop>...   evaluates /tmp/mutwt/<prop>/MUTANT{1,2} as <prop>-m{1+offset,2+offset}
OFF=$1; P=$2; shift 2
extra() { case $1 in C01) echo "C12";; C08) echo "C14";; C10) echo "C13";; C12) echo "C11 C01";; C11) echo "C12";; C14) echo "C02";; C15) echo "C14";; C19) echo "C02";; C20) echo "C13";; C02|C03|C05) echo "C14";; *) echo "";; esac; }
one() { p=$1; off=$2; for k in 1 2; do [ -d /tmp/mutwt/$p/MUTANT$k ] && /verif/tools/eval_mutant.py /tmp/mutwt/$p /tmp/mutwt/$p/MUTANT$k $p-m$((k+off)) $p $(extra $p); done; }
export -f one extra
printf "%s\n" "$@" | xargs -P $P -I{} bash -c "one {} $OFF"
