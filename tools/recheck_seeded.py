#!/usr/bin/env python3
"""tools/recheck_seeded.py <P> [<seed-id> ...]   re-runs the quick checks named in each seeded/<id>/meta.json
(checks_run keys, plus extra ones given as <id>:<check>) against the stored patch and refreshes caught_by."""
import concurrent.futures as cf
import json
import os
import subprocess
import sys

VERIF = os.path.dirname(os.path.dirname(os.path.abspath(__file__)))


def one(arg):
    sid, extra = arg
    d = os.path.join(VERIF, "seeded", sid)
    meta = json.load(open(os.path.join(d, "meta.json")))
    if meta.get("obsolete"):
        # a later fix: commit removed the code the change lived in (or made the tree behave like it): nothing to apply
        return sid, {"-": "obsolete"}
    checks = list(dict.fromkeys(list(meta.get("checks_run", {})) + extra)) or [sid.split("-")[0]]
    res = {}
    for c in checks:
        p = subprocess.run([os.path.join(VERIF, "tools", "with_mutant.sh"), os.path.join(d, "patch.diff"), c], cwd=VERIF,
                           stdout=subprocess.PIPE, stderr=subprocess.STDOUT)
        out = p.stdout.decode("utf-8", "replace")
        lines = out.splitlines()
        viol = [l for l in lines if l.startswith("VIOLATION")]
        first = ""
        for i, l in enumerate(lines):
            if l.startswith("VIOLATION") and i + 1 < len(lines):
                first = lines[i + 1].strip()[:200]
                break
        res[c] = {"rc": p.returncode, "violations": len(viol), "first": first,
                  "summary": next((l for l in reversed(lines) if l.startswith(c + " ")), "")[:200]}
    meta["checks_run"] = res
    meta["caught_by"] = [c for c, r in res.items() if r["rc"] == 1 and r["violations"] > 0]
    json.dump(meta, open(os.path.join(d, "meta.json"), "w"), indent=1)
    return sid, {c: ("CAUGHT" if r["rc"] == 1 else "missed(rc=%s)" % r["rc"]) for c, r in res.items()}


def main():
    P = int(sys.argv[1])
    args = []
    for a in sys.argv[2:] or sorted(os.listdir(os.path.join(VERIF, "seeded"))):
        sid, _, extra = a.partition(":")
        args.append((sid, [e for e in extra.split(",") if e]))
    with cf.ThreadPoolExecutor(max_workers=P) as ex:
        for sid, r in ex.map(one, args):
            print(sid, r, flush=True)


if __name__ == "__main__":
    main()
