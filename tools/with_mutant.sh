#!/bin/bash
# usage: tools/with_mutant.sh <patch-file|-> <check args...>
#   applies the patch (or a shell snippet on stdin when "-") to a scratch worktree of /repo HEAD and runs
#   ./check there (VERIF_REPO/VERIF_WORK/... redirected), then removes everything again.
set -u
P="$1"; shift
ID=$$
WT=/root/scratch/mut-$ID
mkdir -p /root/scratch
git -C /repo worktree add -q --detach "$WT" HEAD || exit 3
if [ "$P" = "-" ]; then
  (cd "$WT" && bash -e -s) || { echo "mutation snippet failed"; git -C /repo worktree remove --force "$WT"; exit 3; }
else
  git -C "$WT" apply "$P" 2>/dev/null || git -C "$WT" apply --3way "$P" || { echo "patch does not apply"; git -C /repo worktree remove --force "$WT"; exit 3; }
fi
cd /verif
VERIF_REPO="$WT" VERIF_WORK=/root/scratch/work-$ID VERIF_EVIDENCE_DIR=/root/scratch/ev-$ID VERIF_REPLAYS=/root/scratch/rp-$ID \
  ./check "$@"
RC=$?
git -C /repo worktree remove --force "$WT"
rm -rf /root/scratch/work-$ID /root/scratch/ev-$ID
[ "${KEEP_REPLAYS:-0}" = 1 ] || rm -rf /root/scratch/rp-$ID
exit $RC
