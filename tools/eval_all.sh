#!/bin/bash
# re-evaluate every seeded change under /tmp/mutwt against the current checks (own property's check + extras)
# usage: tools/eval_all.sh [parallel-worktrees]
P=${1:-4}
extra() { case $1 in C01) echo "C12";; C08) echo "C14";; C10) echo "C01";; C12) echo "C11 C01";; C11) echo "C12";; C14) echo "C02";; C15) echo "C14";; C19) echo "C02";; C20) echo "C13";; C02|C03|C05) echo "C14";; *) echo "";; esac; }
one() { p=$1; for k in 1 2; do [ -d /tmp/mutwt/$p/MUTANT$k ] && /verif/tools/eval_mutant.py /tmp/mutwt/$p /tmp/mutwt/$p/MUTANT$k $p-m$k $p $(extra $p); done; }
export -f one extra
printf "%s\n" C01 C02 C03 C04 C05 C06 C07 C08 C09 C10 C11 C12 C13 C14 C15 C16 C17 C18 C19 C20 | xargs -P $P -I{} bash -c 'one {}'
