#!/bin/bash
# usage: tools/build_seeded.sh <P>   every stored patch must apply to /repo HEAD and build without warnings
P=${1:-8}
one() { id=$1; w=/root/scratch/bs-$$-$id; git -C /repo worktree add -q --detach $w HEAD || exit 3
  if python3 -c "import json,sys;sys.exit(0 if json.load(open('/verif/seeded/$id/meta.json')).get('obsolete') else 1)"; then echo "$id obsolete"; git -C /repo worktree remove --force $w; return; fi
  if ! git -C $w apply /verif/seeded/$id/patch.diff 2>/dev/null; then echo "$id DOES-NOT-APPLY"; git -C /repo worktree remove --force $w; return; fi
  out=$(cd $w && CARGO_NET_OFFLINE=true CARGO_TARGET_DIR=/root/scratch/bs-target-$2 cargo build --offline 2>&1)
  if echo "$out" | grep -qE "^(error|warning)"; then echo "$id BUILD-PROBLEM: $(echo "$out" | grep -E '^(error|warning)' | head -1)"; else echo "$id ok"; fi
  git -C /repo worktree remove --force $w; }
export -f one
ls /verif/seeded | awk -v p=$P '{print $1, NR % p}' | xargs -P $P -n 2 bash -c 'one $0 $1'
rm -rf /root/scratch/bs-target-*
