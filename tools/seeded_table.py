#!/usr/bin/env python3
"""tools/seeded_table.py   prints the markdown table of DESIGN.md §12 from seeded/*/meta.json"""
import glob
import json
import os

VERIF = os.path.dirname(os.path.dirname(os.path.abspath(__file__)))


def cell(s, n):
    return " ".join(str(s).split()).replace("|", "\\|")[:n]


print("| seeded change | what it breaks | needs, to manifest | caught by (quick tier) |")
print("|---|---|---|---|")
for d in sorted(glob.glob(os.path.join(VERIF, "seeded", "*"))):
    m = json.load(open(os.path.join(d, "meta.json")))
    print("| %s | %s | %s | %s |" % (os.path.basename(d), cell(m.get("what_it_breaks", ""), 150), cell(m.get("needs_to_manifest", ""), 130),
                                   ("(obsolete: %s)" % cell(m["obsolete"], 160)) if m.get("obsolete") else
                                   ("(kept, not claimed — %s)" % cell(m["outside_statement"], 300)) if m.get("outside_statement") else
                                   (", ".join(m.get("caught_by", [])) or "**none**")))
