#!/usr/bin/env python3
"""tools/eval_mutant.py <worktree> <MUTANTk dir> <seed-id> <check> [<check> ...]

Confirms a seeded change the way the brief asks (in the scratch worktree it was written in):
  clean tree: demo passes;  change applied: crate builds, the repository's test-suite passes, demo fails;
then runs the named quick checks against a scratch worktree of /repo HEAD with the change applied
(tools/with_mutant.sh) and stores patch, demo and meta.json under /verif/seeded/<seed-id>/."""
import json
import os
import shutil
import subprocess
import sys

VERIF = os.path.dirname(os.path.dirname(os.path.abspath(__file__)))
ENV = dict(os.environ, CARGO_NET_OFFLINE="true", CARGO_TERM_COLOR="never")


def sh(cmd, cwd=None, timeout=3600):
    p = subprocess.run(cmd, cwd=cwd, shell=isinstance(cmd, str), stdout=subprocess.PIPE, stderr=subprocess.STDOUT, env=ENV,
                       timeout=timeout)
    return p.returncode, p.stdout.decode("utf-8", "replace")


def run_demo(mdir, meta):
    demo = os.path.join(mdir, "demo")
    if os.path.exists(os.path.join(demo, "run.sh")):
        rc, out = sh("bash run.sh", cwd=demo)
        return rc, out[-1500:]
    if os.path.exists(os.path.join(demo, "Cargo.toml")) and not os.path.exists(os.path.join(demo, "src", "main.rs")) \
            and os.path.isdir(os.path.join(demo, "tests")):
        rc, out = sh("cargo test --offline -q", cwd=demo)
        return rc, out[-1500:]
    if os.path.exists(os.path.join(demo, "Cargo.toml")):
        rc, out = sh("cargo run --offline -q", cwd=demo)
        return rc, out[-1500:]
    return 99, "no demo/Cargo.toml; how_to_run_demo=%s" % meta.get("how_to_run_demo")


def main():
    wt, mdir, sid = sys.argv[1:4]
    checks = sys.argv[4:]
    meta = json.load(open(os.path.join(mdir, "meta.json")))
    patch = os.path.join(mdir, "patch.diff")
    res = {}
    sh("git checkout -- src", cwd=wt)
    rc, out = run_demo(mdir, meta)
    res["clean_demo_rc"] = rc
    rc, out = sh(["git", "apply", patch], cwd=wt)
    if rc != 0:
        print("patch does not apply:", out)
        return 3
    rc, out = sh("cargo build --offline 2>&1 | grep -c '^warning' ; true", cwd=wt)
    res["build_warnings"] = out.strip().splitlines()[-1] if out.strip() else "?"
    rc, out = sh("cargo test --offline 2>&1 | grep -E '^test result|FAILED|^error' ", cwd=wt)
    res["tests_ok"] = ("FAILED" not in out and "error" not in out and "test result: ok" in out)
    res["test_result_lines"] = out.count("test result: ok")
    rc, dout = run_demo(mdir, meta)
    res["mutant_demo_rc"] = rc
    res["mutant_demo_tail"] = dout[-600:]
    sh("git checkout -- src", cwd=wt)
    shutil.rmtree(os.path.join(mdir, "demo", "target"), ignore_errors=True)
    confirmed = res["clean_demo_rc"] == 0 and res["tests_ok"] and res["mutant_demo_rc"] != 0
    res["confirmed"] = confirmed
    dst = os.path.join(VERIF, "seeded", sid)
    shutil.rmtree(dst, ignore_errors=True)
    os.makedirs(dst)
    shutil.copy(patch, os.path.join(dst, "patch.diff"))
    ported = os.path.join(mdir, "patch.ported.diff")
    if os.path.exists(ported):
        # ported by hand onto the current /repo HEAD (a later fix: commit rewrote the code the change sits in)
        shutil.copy(patch, os.path.join(dst, "patch.orig.diff"))
        shutil.copy(ported, os.path.join(dst, "patch.diff"))
    if os.path.isdir(os.path.join(mdir, "demo")):
        shutil.copytree(os.path.join(mdir, "demo"), os.path.join(dst, "demo"), ignore=shutil.ignore_patterns("target"))
    # a later fix: commit in /repo may have moved the context: rebase the stored patch onto /repo HEAD first
    rc, out = sh([os.path.join(VERIF, "tools", "rebase_seeded.py"), dst])
    if out.strip():
        print("  ", out.strip()[-300:])
    patch = os.path.join(dst, "patch.diff")
    caught = {}
    for c in checks:
        rc, out = sh([os.path.join(VERIF, "tools", "with_mutant.sh"), patch, c], cwd=VERIF)
        viol = [l for l in out.splitlines() if l.startswith("VIOLATION")]
        first = ""
        lines = out.splitlines()
        for i, l in enumerate(lines):
            if l.startswith("VIOLATION") and i + 1 < len(lines):
                first = lines[i + 1].strip()[:200]
                break
        caught[c] = {"rc": rc, "violations": len(viol), "first": first,
                     "summary": next((l for l in reversed(lines) if l.startswith(c + " ")), "")[:200]}
    meta["confirmation"] = res
    meta["checks_run"] = caught
    meta["caught_by"] = [c for c, r in caught.items() if r["rc"] == 1 and r["violations"] > 0]
    meta["what_i_ran"] = ("in the author's scratch worktree: demo on the clean tree, then `git apply patch.diff`, `cargo build`, "
                          "`cargo test --offline`, demo again, `git checkout -- src`; then tools/with_mutant.sh patch.diff <check> "
                          "for: " + " ".join(checks))
    json.dump(meta, open(os.path.join(dst, "meta.json"), "w"), indent=1)
    print(sid, "confirmed" if confirmed else "NOT-CONFIRMED", json.dumps(res)[:300])
    for c, r in caught.items():
        print("  ", c, "CAUGHT" if r["rc"] == 1 else "missed(rc=%s)" % r["rc"], r["first"][:150])
    return 0


if __name__ == "__main__":
    sys.exit(main())
