#!/usr/bin/env python3
"""tools/rebase_seeded.py [<seeded dir> ...]
Rewrites seeded/*/patch.diff that no longer apply plainly to /repo HEAD (a later `fix:` commit moved their context):
3-way apply in a scratch worktree; conflicts made only of `use` lines are resolved by taking the patch's side and
dropping the `quote` / `format_ident` imports (the crate now has its own wrappers of those); the result must build
without warnings.  The original patch is kept as patch.orig.diff."""
import glob
import os
import re
import subprocess
import sys

ENV = dict(os.environ, CARGO_NET_OFFLINE="true", CARGO_TARGET_DIR="/root/scratch/rebase-target")


def sh(cmd, cwd=None):
    p = subprocess.run(cmd, cwd=cwd, shell=True, stdout=subprocess.PIPE, stderr=subprocess.STDOUT, env=ENV)
    return p.returncode, p.stdout.decode("utf-8", "replace")


def fix_use(line):
    m = re.match(r"^use quote::\{([^}]*)\};$", line.strip())
    if m:
        names = [n.strip() for n in m.group(1).split(",") if n.strip() not in ("quote", "format_ident", "")]
        if not names:
            return None
        return "use quote::%s;" % (names[0] if len(names) == 1 else "{%s}" % ", ".join(names))
    if line.strip() in ("use quote::quote;", "use quote::format_ident;"):
        return None
    return line


def resolve(path):
    out, theirs, state = [], [], 0
    for line in open(path).read().split("\n"):
        if line.startswith("<<<<<<< "):
            state, ours, theirs = 1, [], []
        elif line.startswith("=======") and state == 1:
            state = 2
        elif line.startswith(">>>>>>> ") and state == 2:
            if not all(l.strip() == "" or l.startswith("use ") for l in ours + theirs):
                return False
            for l in theirs:
                f = fix_use(l)
                if f is not None:
                    out.append(f)
            state = 0
        elif state == 1:
            ours.append(line)
        elif state == 2:
            theirs.append(line)
        else:
            out.append(line)
    open(path, "w").write("\n".join(out))
    return True


def main():
    dirs = sys.argv[1:] or sorted(glob.glob("/verif/seeded/*/"))
    head = sh("git -C /repo rev-parse --short HEAD")[1].strip()
    for d in dirs:
        f = os.path.join(d, "patch.diff")
        try:
            import json
            if json.load(open(os.path.join(d, "meta.json"))).get("obsolete"):
                continue
        except (OSError, ValueError):
            pass
        if sh("git -C /repo apply --check %s" % f)[0] == 0:
            continue
        wt = "/root/scratch/rebase-%d" % os.getpid()
        sh("git -C /repo worktree add -q --detach %s HEAD" % wt)
        try:
            sh("git apply --3way %s" % f, cwd=wt)
            ok = True
            for u in sh("git diff --name-only --diff-filter=U", cwd=wt)[1].split():
                ok = ok and resolve(os.path.join(wt, u))
            if ok:
                rc, out = sh("cargo build --offline 2>&1", cwd=wt)
                ok = rc == 0 and "warning" not in out
                if not ok:
                    print(out[-1500:])
            if ok:
                if not os.path.exists(os.path.join(d, "patch.orig.diff")):
                    os.rename(f, os.path.join(d, "patch.orig.diff"))
                sh("git reset -q", cwd=wt)
                open(f, "w").write(sh("git diff HEAD", cwd=wt)[1])
                print("%s: rebased onto %s" % (os.path.basename(d.rstrip("/")), head))
            else:
                print("%s: could not be rebased automatically" % os.path.basename(d.rstrip("/")))
        finally:
            sh("git -C /repo worktree remove --force %s" % wt)


if __name__ == "__main__":
    main()
