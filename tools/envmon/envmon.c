/* LD_PRELOAD shim: logs the name of every environment variable the process asks for (getenv / secure_getenv) to the
   file named by VERIF_ENVLOG.  Used by C16: the macro's expansion must not depend on the environment of the compiler. */
#define _GNU_SOURCE
#include <dlfcn.h>
#include <fcntl.h>
#include <string.h>
#include <unistd.h>

static char *(*real_getenv)(const char *);
static int busy;

static void note(const char *name) {
    if (busy || !real_getenv) return;
    busy = 1;
    const char *log = real_getenv("VERIF_ENVLOG");
    if (log) {
        int fd = open(log, O_WRONLY | O_APPEND | O_CREAT, 0644);
        if (fd >= 0) {
            char buf[512];
            size_t n = strlen(name);
            if (n > sizeof buf - 2) n = sizeof buf - 2;
            memcpy(buf, name, n);
            buf[n] = '\n';
            (void) !write(fd, buf, n + 1);
            close(fd);
        }
    }
    busy = 0;
}

/* the log exists as soon as the shim is loaded: an empty log means "loaded, nothing asked for" */
__attribute__((constructor)) static void loaded(void) {
    real_getenv = (char *(*)(const char *)) dlsym(RTLD_NEXT, "getenv");
    const char *log = real_getenv ? real_getenv("VERIF_ENVLOG") : 0;
    if (log) {
        int fd = open(log, O_WRONLY | O_APPEND | O_CREAT, 0644);
        if (fd >= 0) close(fd);
    }
}

char *getenv(const char *name) {
    if (!real_getenv) real_getenv = (char *(*)(const char *)) dlsym(RTLD_NEXT, "getenv");
    note(name);
    return real_getenv(name);
}

char *secure_getenv(const char *name) {
    if (!real_getenv) real_getenv = (char *(*)(const char *)) dlsym(RTLD_NEXT, "getenv");
    note(name);
    return real_getenv(name);
}
