"""Random well-typed derive requests over the verif_rt universe, with semantic descriptors."""
from . import shapes as S
from .shapes import RT, Field, TypeDef, Variant

ISIZE_MIN = -(2 ** 63)
ISIZE_MAX = 2 ** 63 - 1

FIELD_NAMES = ["a", "b", "c", "d", "e", "x", "y", "value", "inner", "data", "f1", "f2", "left", "right"]
UNDERSCORE_NAMES = ["_id", "__raw", "_marker", "_x", "x_", "_"  "a"]
RAW_NAMES = ["r#type", "r#fn", "r#match", "r#struct", "r#loop"]
VARIANT_NAMES = ["V0", "V1", "V2", "V3", "V4", "Alpha", "Beta", "Gamma", "Unit", "Pair", "Rec"]
# (names that the other traits' impls use for their own helpers are ordinary names here: they must not leak across traits)
RENAMES = ["renamed", "Other", "k0", "Zed", "alias", "H", "HH", "Educe__DebugField", "Educe__RawString", "state"]

BOUND_TRAIT = {
    "Debug": "::core::fmt::Debug", "Clone": "::core::clone::Clone", "Copy": "::core::marker::Copy",
    "PartialEq": "::core::cmp::PartialEq", "Eq": "::core::cmp::Eq",
    "PartialOrd": "::core::cmp::PartialOrd", "Ord": "::core::cmp::Ord", "Hash": "::core::hash::Hash",
    "Default": "::core::default::Default",
}


def needs_partner_derives(traits):
    """std derives that supply supertraits educe is not asked to provide."""
    d = []
    ts = set(traits)
    if "Copy" in ts and "Clone" not in ts:
        d.append("Clone")
    if ("Eq" in ts or "PartialOrd" in ts or "Ord" in ts) and "PartialEq" not in ts:
        d.append("PartialEq")
    if "Ord" in ts and "Eq" not in ts:
        d.append("Eq")
    if "Ord" in ts and "PartialOrd" not in ts:
        d.append("PartialOrd")
    return d


class Opts:
    def __init__(self, **kw):
        self.kind = None
        self.max_fields = 4
        self.max_variants = 4
        self.generics = True
        self.p_attr = 0.5
        self.raw_idents = 0.05
        self.allow_empty_enum = True
        self.bounds = True          # explicit bound(..) variants on generic types
        self.lawful_only = False    # only lawful custom comparison methods
        self.avoid = set()          # constructs to avoid, e.g. {'copy_enum_method'}
        self.kinds = None           # restrict field kinds (keys)
        self.min_fields = 0
        self.p_partial = 0.25       # chance of NaN-like P fields where the trait set allows
        self.type_name = "Ty"
        self.names = None           # optional name provider (C19)
        self.p_repr = 0.15          # chance of a #[repr(..)] (and explicit discriminants) on an enum
        self.full_exprs = False     # use expressions that need educe's `full` feature (syn/full)
        self.p_uniform = 0.25       # chance that all fields of a variant share one kind
        self.p_rank_edge = 0.2      # chance (per variant) of explicit ranks in the range of the default ranks
        self.param_attrs = True     # attributes (`#[allow(..)]`, `#[cfg(all())]`) on some generic parameters
        self.named_methods = True   # spell some custom methods as `::verif_rt::named::<StdTraitName>::<method>`
        self.p_packed = 0.0         # chance of #[repr(packed)] on a struct whose fields all have alignment 1
        self.all_method = False     # comparison-like traits: every field goes through a custom method or is ignored
        self.rich = False           # allow the rich generics flavour (two lifetimes, two type
                                    # parameters, a const parameter, a user where-clause)
        self.__dict__.update(kw)


PARAM_ATTRS = ["#[allow(non_camel_case_types)]", "#[cfg(all())]", "#[allow(unused)]", "#[allow(non_upper_case_globals, non_snake_case)]"]
ALIGN1_KINDS = {"T", "Ct", "P", "OptT", "OptCt", "ArrT", "ArrCt", "TupT", "U8"}
NAMED_METHODS = {"eq_mod2": "named::PartialEq::eq", "cmp_rev": "named::Ord::cmp", "pcmp_rev": "named::PartialOrd::partial_cmp",
                 "hash_alt": "named::Hash::hash", "fmt_alt": "named::Debug::fmt", "clone_alt": "named::Clone::clone"}
DEFAULT_NAMES = None   # C19 installs a hostile name provider here
EXCLUDE_KINDS = set()  # C19: kinds whose type text needs `std` (the definitions live in a no_std crate)


OPTS_PATCH = {}        # C19's directed workload forces shapes here (kind, min_fields, force_style)


def random_type(rng, traits, opts=None):
    o = opts or Opts()
    for _k, _v in OPTS_PATCH.items():
        setattr(o, _k, _v)
    if o.names is None and DEFAULT_NAMES is not None:
        o.names = DEFAULT_NAMES
        o.raw_idents = 0.0
    ts = list(traits)
    tset = set(ts)
    kind = o.kind or rng.choice(["struct", "enum", "enum"])
    td = TypeDef(kind, o.type_name)
    td.traits = ts
    td.other_derives = needs_partner_derives(ts)
    derives = set(td.other_derives)

    # -- generics flavour ------------------------------------------------------------------------
    flavour = "none"
    if o.generics:
        flavour = rng.choice(["none", "none", "G", "G", "aG", "GN", "a"] + (["rich"] * 4 if o.rich else []))
    want_copy = "Copy" in tset
    total_needed = bool(tset & {"Eq", "Ord", "Hash"}) or bool(derives & {"Eq", "PartialOrd", "PartialEq"})
    partial_ok = not total_needed and not want_copy and "Into" not in tset and \
        rng.random() < o.p_partial
    garg = "Ct" if want_copy else ("P" if partial_ok and rng.random() < 0.5 else "T")
    gname, ltname = "G", "'a"
    if o.names:
        gname, ltname = o.names.type_param(rng), o.names.lifetime(rng)
    kinds = S.make_kinds(gname, garg, ltname, full=o.full_exprs)
    has_g = flavour in ("G", "aG", "GN", "rich")
    has_a = flavour in ("aG", "a", "rich")
    if has_a:
        td.params.append({"kind": "lt", "name": ltname, "arg": "'static"})
    if has_g:
        bounds = [RT + "Payload"]
        if has_a:
            bounds.append(ltname)
        if rng.random() < 0.35:
            # the bound the definition relies on lives in the where-clause instead of inline
            td.params.append({"kind": "ty", "name": gname, "bounds": [b for b in bounds if b != RT + "Payload"],
                              "arg": RT + garg})
            td.where.append("%s: %sPayload" % (gname, RT))
        else:
            td.params.append({"kind": "ty", "name": gname, "bounds": bounds, "arg": RT + garg})
    if flavour == "rich":
        td.params.insert(1, {"kind": "lt", "name": "'b", "bounds": [ltname], "arg": "'static"})
        td.params.append({"kind": "ty", "name": "K", "bounds": [RT + "Payload"], "arg": RT + garg})
    if flavour in ("GN", "rich"):
        cname = o.names.const_param(rng) if o.names else rng.choice(["N", "N", "M", "H", "LEN", "HH"])
        td.params.append({"kind": "const", "name": cname, "arg": "2"})
        td.notes["const"] = cname
    if o.param_attrs:
        # attributes in front of generic parameters travel with them into every impl header
        for p in td.params:
            if rng.random() < 0.08:
                p["attr"] = rng.choice(PARAM_ATTRS)

    pool = []
    for k in kinds.values():
        if "G" in k.needs and not has_g:
            continue
        if "a" in k.needs and not has_a:
            continue
        if want_copy and "Copy" not in k.caps:
            continue
        if k.key == "P" and not partial_ok:
            continue
        if o.kinds is not None and k.key not in o.kinds:
            continue
        if k.key in EXCLUDE_KINDS:
            continue
        if k.key == "RefG" and "Default" in tset:
            # a `&'a G` field can neither be defaulted nor given a generic expression
            continue
        if "Default" in derives and "Default" not in k.caps:
            continue
        # partner std derives need the capability on every field
        if any(d not in k.caps for d in derives):
            continue
        pool.append(k)
    if not pool:
        pool = [kinds["Ct"] if want_copy else kinds["T"]]
    weights = [1 if k.dom == 1 else (8 if k.key == "P" else 4 if k.key in ("T", "Ct", "G") else 2) for k in pool]

    # -- shape ----------------------------------------------------------------------------------
    need_field = bool(tset & {"Deref", "DerefMut", "Into"})
    min_fields = max(o.min_fields, 1 if need_field else 0)

    used_names = set()

    def fname():
        for _try in range(200):
            if rng.random() < o.raw_idents:
                n = rng.choice(RAW_NAMES)
            elif o.names:
                n = o.names.field(rng)
            elif used_names and rng.random() < 0.12 and not all(u.startswith("r#") for u in used_names):
                # a sibling of a name already in this variant: `x` next to `_x` / `__x`
                n = rng.choice(["_", "__"]) + rng.choice(sorted(u for u in used_names if not u.startswith("r#")))
            else:
                n = rng.choice(FIELD_NAMES + UNDERSCORE_NAMES) if rng.random() < 0.3 else rng.choice(FIELD_NAMES)
            if n not in used_names:
                used_names.add(n)
                return n
        n = "fz%d" % len(used_names)
        used_names.add(n)
        return n

    def mk_variant(name, allow_unit=True):
        styles = ["tuple", "named"] + (["unit"] if allow_unit and min_fields == 0 else [])
        style = rng.choice(styles)
        if getattr(o, "force_style", None):
            style = o.force_style
        used_names.clear()
        if style == "unit":
            return Variant(name, "unit", [])
        lo = min_fields
        n = rng.randint(lo, max(lo, o.max_fields))
        if rng.random() < 0.08:
            n = rng.randint(o.max_fields + 1, o.max_fields + 3)   # the occasional wide variant
        if rng.random() < 0.025 and o.max_fields >= 3:
            n = rng.randint(13, 16)   # wider than the tuples core implements its traits for
        if n == 0 and rng.random() < 0.7:
            n = 1
        fields = []
        # a quarter of the variants use one kind for all fields: crosswise mistakes (field i built from / compared with
        # field j) only type-check, and therefore only show in behaviour, when the fields have the same type
        uniform = rng.choices(pool, weights)[0] if rng.random() < o.p_uniform else None
        for i in range(n):
            k = uniform if uniform is not None and uniform.dom > 1 else rng.choices(pool, weights)[0]
            fields.append(Field(fname() if style == "named" else None, k, i))
        return Variant(name, style, fields)

    if kind == "struct":
        td.variants = [mk_variant(None)]
        if o.p_packed and not td.params and td.variants[0].fields and rng.random() < o.p_packed \
                and all(f.kind.key in ALIGN1_KINDS for f in td.variants[0].fields) \
                and (not td.other_derives or all(f.kind.key in ("Ct", "OptCt", "ArrCt", "U8") for f in td.variants[0].fields)):
            # (std's derives, which provide the partner traits, copy the fields of a packed struct: they need Copy fields)
            # every field has alignment 1 (the instrumented types are made of u8 / i8): references to the fields of the
            # packed struct are fine, the impls are the field-wise ones
            td.reprs = [rng.choice(["packed", "C, packed", "packed(1)", "C", "packed(2)"])]
    else:
        lo = 1 if (tset & {"Default", "Deref", "DerefMut", "Into"} or not o.allow_empty_enum) else 0
        nv = rng.randint(lo, o.max_variants)
        if nv == 0 and rng.random() < 0.6:
            nv = rng.randint(1, o.max_variants)
        names = list(VARIANT_NAMES)
        if o.names:
            names = o.names.variants(rng, nv)
        else:
            rng.shuffle(names)
        td.variants = [mk_variant(names[i]) for i in range(nv)]
        # the occasional #[repr(..)] and explicit discriminants (legal only for field-less enums or with a primitive repr)
        if nv and rng.random() < o.p_repr:
            rep = rng.choice(["u8", "i16", "u32", "i64", "isize", "C"])
            td.reprs = [rep]
            unit_only = all(v.style == "unit" for v in td.variants)
            if (rep != "C" or unit_only) and rng.random() < 0.7:
                signed = rep in ("i16", "i64", "isize", "C")
                # explicit values for some variants only (the others continue from their predecessor), drawn from a small
                # range so that discriminant values and declaration indices overlap without being equal
                for _ in range(20):
                    cur, ds, txt = -1, [], []
                    for i in range(nv):
                        if rng.random() < 0.55:
                            cur = rng.randint(-3 if signed else 0, nv + 3)
                            txt.append(str(cur))
                        else:
                            cur += 1
                            txt.append(None)
                        ds.append(cur)
                    if len(set(ds)) == nv and (signed or min(ds) >= 0):
                        for v, t in zip(td.variants, txt):
                            v.disc = t
                        td.notes["dvals"] = ds
                        break

    td.notes["kinds"] = kinds
    td.notes["garg"] = garg
    td.notes["gname"] = gname
    td.notes["ltname"] = ltname
    designate(rng, td, o)

    # every declared parameter must be used by some field (after the kinds were settled)
    nonunit = [v for v in td.variants if v.style != "unit"]

    def append_field(v, k):
        f = Field(fname_for(v, used_names, rng) if v.style == "named" else None, k, len(v.fields))
        v.fields.append(f)
        return f

    if has_g and not any("G" in f.kind.needs for _, f in td.all_fields()):
        if nonunit and (o.kinds is None or "PhG" in o.kinds):
            append_field(rng.choice(nonunit), kinds["PhG"])
        else:
            td.params = [p for p in td.params if p["kind"] != "ty"]
            td.where = []
            has_g = False
    if has_a and not any("a" in f.kind.needs for _, f in td.all_fields()):
        if nonunit and (o.kinds is None or "RefT" in o.kinds) and "Default" not in derives:
            append_field(rng.choice(nonunit), kinds["RefT"])
        else:
            td.params = [p for p in td.params if p["kind"] != "lt"]
            for p in td.params:
                if p.get("bounds"):
                    p["bounds"] = [b for b in p["bounds"] if b != ltname]
            has_a = False
    if flavour == "rich" and nonunit:
        k2 = S.make_kinds("K", garg, "'b")
        kk = rng.choice([k2["G"], k2["OptG"], k2["PhG"]])
        if want_copy or derives:
            kk = k2["PhG"] if rng.random() < 0.5 else k2["G"]
        append_field(rng.choice(nonunit), kk)
        if "Default" not in derives:
            append_field(rng.choice(nonunit), k2["RefT"])
        else:
            td.params = [p for p in td.params if p["name"] != "'b"]
        wpool = ["%s: %sPayload" % (gname, RT), "K: ::core::marker::Sized", "'b: %s" % ltname,
                 "[%s; 2]: ::core::marker::Sized" % gname, "K: %s" % ltname,
                 "%sT: ::core::clone::Clone" % RT]
        if not any(p["name"] == "'b" for p in td.params):
            wpool = [w for w in wpool if "'b" not in w]
        td.where = td.where + [w for w in rng.sample(wpool, rng.randint(0, 3)) if w not in td.where]
    elif flavour == "rich":
        td.params = [p for p in td.params if p["name"] not in ("'b", "K")]
    if flavour in ("GN", "rich"):
        # a const parameter must be used: give it to an array-typed filler field
        if nonunit:
            cn = td.notes["const"]
            f = append_field(rng.choice(nonunit),
                             S.Kind("ArrN", "[%sZ; %s]" % (RT, cn), S.ALLCAPS - {"Default"}, 1,
                                    lambda s, sl, a: "%szs::<2>()" % RT))
            f.sem["_constarr"] = True
        else:
            td.params = [p for p in td.params if p["kind"] != "const"]
    # const parameters need not come last: `<const N: usize, G>` is legal
    nonlt = [p for p in td.params if p["kind"] != "lt"]
    if len(nonlt) >= 2 and any(p["kind"] == "const" for p in nonlt) and rng.random() < 0.4:
        rng.shuffle(nonlt)
        td.params = [p for p in td.params if p["kind"] == "lt"] + nonlt
    if td.params and td.params[-1]["kind"] == "ty" and rng.random() < 0.25:
        td.params[-1]["default"] = td.params[-1]["arg"]

    decorate(rng, td, o)
    return td


SELF_REC = None


def add_self_recursive_field(rng, td):
    """append `Option<Box<Self>>` to a variant: a field type that mentions the type itself but none of its parameters
    (only for checks that never build values).  Returns the field or None."""
    global SELF_REC
    if td.kind == "union" or set(td.traits) & {"Copy", "Into", "Deref", "DerefMut"}:
        return None
    vs = [v for v in td.variants if v.style != "unit" and v.fields]
    if not vs or not td.params:
        return None
    v = rng.choice(vs)
    # the new field's default rank (isize::MIN + position) must stay free
    if any(f.sem.get(t, {}).get("rank") == ISIZE_MIN + len(v.fields) for f in v.fields for t in ("PartialOrd", "Ord")):
        return None
    if SELF_REC is None:
        from . import shapes as S
        SELF_REC = S.Kind("SelfRec", "::core::option::Option<::std::boxed::Box<Self>>", S.ALLCAPS - {"Copy"}, 1,
                          lambda s, sl, a: "::core::option::Option::None")
    from . import shapes as S
    f = S.Field("rec_self" if v.style == "named" else None, SELF_REC, len(v.fields))
    v.fields.append(f)
    return f


def add_token_only_field(rng, td):
    """append a field whose type depends on a parameter in a way only the header checks (C12, no type checking) can use: a
    const parameter as a plain generic argument, an associated-type projection in short and qualified form"""
    from . import shapes as S
    if td.kind == "union" or set(td.traits) & {"Copy", "Into", "Deref", "DerefMut"}:
        return None
    vs = [v for v in td.variants if v.style != "unit" and v.fields]
    typarams = [p["name"] for p in td.params if p["kind"] == "ty"]
    consts = [p["name"] for p in td.params if p["kind"] == "const"]
    if not vs or not (typarams or consts):
        return None
    cands = []
    for g in typarams:
        cands += ["%s::Item" % g, "<%s as ::core::iter::Iterator>::Item" % g, "::core::option::Option<%s::Item>" % g,
                  "::std::boxed::Box<dyn ::core::ops::Fn(%s) -> u8>" % g, "fn(%s) -> u8" % g, "*const %s" % g]
    for n in consts:
        cands += ["::verif_rt::Tag<%s>" % n, "[[u8; %s]; 2]" % n]   # (no `{ N }`: the runner cuts impl headers at the first brace)
    v = rng.choice(vs)
    if any(f.sem.get(t, {}).get("rank") == ISIZE_MIN + len(v.fields) for f in v.fields for t in ("PartialOrd", "Ord")):
        return None
    ty = rng.choice(cands)
    kind = S.Kind("TokOnly", ty, S.ALLCAPS - {"Copy"}, 1, lambda s, sl, a: "::core::unimplemented!()")
    f = S.Field("tok_only" if v.style == "named" else None, kind, len(v.fields))
    v.fields.append(f)
    return f


def fname_for(v, used, rng):
    names = {f.name for f in v.fields}
    for n in FIELD_NAMES + ["z%d" % i for i in range(20)]:
        if n not in names:
            return n
    raise AssertionError


# ------------------------------------------------------------------------------------------------
# decoration with attributes


def decorate(rng, td, o):
    tset = set(td.traits)
    pa = o.p_attr
    generic = any(p["kind"] == "ty" for p in td.params)

    def bound_choice(trait, needed_types, orig=None):
        """explicit bound spelling that keeps the impl well-typed, or None for automatic."""
        if not (o.bounds and generic) or rng.random() > 0.3:
            return None
        gp = [p["name"] for p in td.params if p["kind"] == "ty"]
        bt = BOUND_TRAIT[trait] if trait in BOUND_TRAIT else None
        if bt is None:
            return None
        c = rng.choice(["all", "custom", "custom_ty"])
        if c == "custom_ty" and (orig or trait) not in ("Debug", "Clone", "PartialEq", "Hash", "Default"):
            # the explicit list replaces the automatic `Self: Supertrait` predicates too, so it
            # must imply them: only parameter-based predicates do
            c = "custom"
        from . import model as _M
        needed_types = [t for t in dict.fromkeys(needed_types) if _M.mentions_param(td, t)]
        if c == "all":
            return ("all",)
        if c == "custom":
            return ("custom", ["%s: %s" % (g, bt) for g in gp])
        return ("custom", ["%s: %s" % (t, bt) for t in needed_types] or ["%s: %s" % (g, bt) for g in gp])

    # field-level helpers -----------------------------------------------------------------------
    def cmp_like(trait, carrier_opts, methods, allow_rank):
        for v in td.variants:
            ranks_used = set()
            for f in v.fields:
                s = {}
                has_cap = trait in f.kind.caps
                r = rng.random()
                if f.sem.get("_constarr"):
                    has_cap = trait in f.kind.caps
                if o.all_method:
                    # no field is handled by the built-in trait: custom method or ignored
                    if f.kind.dom > 1 and f.kind.key != "ArrN":
                        s["method"] = RT + rng.choice(methods)
                    else:
                        s["ignore"] = True
                    s["carrier"] = rng.choice(carrier_opts)
                    f.sem[trait] = s
                    continue
                if not has_cap:
                    if r < 0.5 or f.kind.dom == 1:
                        s["ignore"] = True
                    else:
                        s["method"] = RT + rng.choice(methods)
                elif r < pa * 0.4:
                    s["ignore"] = True
                    if rng.random() < 0.3 and f.kind.dom > 1 and f.kind.key != "ArrN":
                        # `ignore` next to `method`: the field is ignored all the same
                        s["method"] = RT + rng.choice(methods)
                elif r < pa * 0.8 and f.kind.dom > 1 and "ArrN" != f.kind.key:
                    s["method"] = RT + rng.choice(methods)
                elif r < pa * 0.9:
                    s["ignore_explicit_false"] = True
                if allow_rank and not s.get("ignore") and rng.random() < pa * 0.8:
                    while True:
                        rk = rng.choice([rng.randint(-6, 6), rng.randint(-6, 6), rng.randint(-1000, 1000),
                                         2 ** 62, -(2 ** 62)])
                        if rk not in ranks_used:
                            break
                    ranks_used.add(rk)
                    s["rank"] = rk
                if s:
                    s["carrier"] = rng.choice(carrier_opts)
                    f.sem[trait] = s
            if allow_rank and len(v.fields) >= 2 and rng.random() < o.p_rank_edge:
                # explicit ranks in the range of the default ranks (isize::MIN + declaration position): legal as long as
                # they avoid the default rank of every other compared, unranked field
                live = [f for f in v.fields if not f.sem.get(trait, {}).get("ignore")]
                if len(live) >= 3 and rng.random() < 0.6:
                    # ignored fields in front of compared ones: declaration position and "number of compared fields so
                    # far" then differ
                    for f in sorted(rng.sample(live, rng.randint(1, len(live) - 2)), key=lambda f: f.slot)[:2]:
                        f.sem[trait] = {"ignore": True, "carrier": rng.choice(carrier_opts)}
                    live = [f for f in v.fields if not f.sem.get(trait, {}).get("ignore")]
                holes = [ISIZE_MIN + g.slot for g in v.fields if g not in live and g.slot > 0]
                for f in rng.sample(live, min(len(live), rng.randint(1, 2))):
                    s = f.sem.get(trait) or {"carrier": rng.choice(carrier_opts)}
                    taken = {ISIZE_MIN + g.slot for g in live if g is not f and g.sem.get(trait, {}).get("rank") is None}
                    taken |= {g.sem[trait]["rank"] for g in live if g is not f and g.sem.get(trait, {}).get("rank") is not None}
                    cands = [ISIZE_MIN + p for p in range(0 if f.slot == 0 else 1, len(v.fields) + 3) if ISIZE_MIN + p not in taken]
                    cands += [r for r in (ISIZE_MAX, ISIZE_MAX - 1) if r not in taken]
                    free_holes = [h for h in holes if h not in taken]
                    if free_holes and rng.random() < 0.7:
                        cands = free_holes
                    if cands:
                        s["rank"] = rng.choice(cands)
                        f.sem[trait] = s

    if "Debug" in tset:
        ts = {}
        if td.kind == "struct":
            r = rng.random()
            if r < pa * 0.3:
                ts["name"] = rng.choice(RENAMES)
            elif r < pa * 0.5:
                ts["name"] = False
            elif r < pa * 0.6:
                ts["name"] = True
            if rng.random() < pa * 0.5:
                ts["named_field"] = rng.random() < 0.5
        else:
            r = rng.random()
            if r < pa * 0.3:
                ts["name"] = rng.choice(RENAMES)
            elif r < pa * 0.6:
                ts["name"] = True
            elif r < pa * 0.7:
                ts["name"] = False
        td.tsem["Debug"] = ts
        type_named = (ts.get("name") not in (None, False)) if td.kind == "enum" else (ts.get("name") is not False)
        for v in td.variants:
            vs = {}
            if td.kind == "enum":
                r = rng.random()
                if r < pa * 0.3:
                    vs["name"] = rng.choice(RENAMES)
                elif r < pa * 0.5:
                    vs["name"] = False
                elif r < pa * 0.6:
                    vs["name"] = True
                if v.style != "unit" and rng.random() < pa * 0.5:
                    vs["named_field"] = rng.random() < 0.5
                v.sem["Debug"] = vs
                named_style = vs.get("named_field", v.style == "named")
                shown_name = type_named or vs.get("name") is not False
            else:
                named_style = ts.get("named_field", v.style == "named")
                shown_name = type_named
            any_shown = False
            for f in v.fields:
                s = {}
                r = rng.random()
                if r < pa * 0.3:
                    s["ignore"] = True
                    if rng.random() < 0.3 and f.kind.dom > 1:
                        s["method"] = RT + "fmt_alt"
                elif r < pa * 0.6 and f.kind.dom > 1:
                    s["method"] = RT + "fmt_alt"
                elif r < pa * 0.7:
                    s["ignore_explicit_false"] = True
                if named_style and not s.get("ignore") and rng.random() < pa * 0.5:
                    s["name"] = rng.choice(RENAMES + ["key_%d" % f.slot])
                if not s.get("ignore"):
                    any_shown = True
                if s:
                    f.sem["Debug"] = s
            if not shown_name and not any_shown:
                # nothing to print: educe refuses; show a name instead
                if td.kind == "enum":
                    v.sem["Debug"]["name"] = True if rng.random() < 0.5 else rng.choice(RENAMES)
                else:
                    td.tsem["Debug"].pop("name", None)
        if td.kind == "enum" and not td.variants and not type_named:
            td.tsem["Debug"]["name"] = True

    if "Clone" in tset:
        copy = "Copy" in tset
        for v, f in td.all_fields():
            if rng.random() < pa * 0.4 and f.kind.dom > 1 and f.kind.key != "ArrN":
                if copy and td.kind == "struct":
                    continue
                if copy and "copy_enum_method" in o.avoid:
                    continue
                if f.kind.key in ("RefT", "RefG"):
                    continue
                f.sem["Clone"] = {"method": RT + "clone_alt"}
        td.tsem["Clone"] = {}

    if "PartialEq" in tset:
        carriers = ["PartialEq"] + (["Eq"] if "Eq" in tset else [])
        methods = ["eq_mod2"] if o.lawful_only else ["eq_mod2", "eq_mod2", "eq_le"]
        cmp_like("PartialEq", carriers, methods, False)
        td.tsem["PartialEq"] = {}
    if "Ord" in tset:
        carriers = ["Ord"] + (["PartialOrd"] if "PartialOrd" in tset else [])
        cmp_like("Ord", carriers, ["cmp_rev"], True)
        td.tsem["Ord"] = {}
    elif "PartialOrd" in tset:
        methods = ["pcmp_rev"] if o.lawful_only else ["pcmp_rev", "pcmp_nan2"]
        cmp_like("PartialOrd", ["PartialOrd"], methods, True)
        td.tsem["PartialOrd"] = {}
    if "Hash" in tset:
        cmp_like("Hash", ["Hash"], ["hash_alt"], False)
        td.tsem["Hash"] = {}

    if "Default" in tset:
        ts = {}
        if rng.random() < pa * 0.5:
            ts["new"] = True
        td.tsem["Default"] = ts
        if not generic and not td.params and rng.random() < pa * 0.3 and td.variants:
            ts["expr_val"] = (rng.randrange(len(td.variants)), None)
            targets = []
        elif td.kind == "enum":
            dv = rng.randrange(len(td.variants))
            if len(td.variants) > 1 or rng.random() < 0.5:
                td.variants[dv].sem.setdefault("Default", {})["flag"] = True
            targets = [td.variants[dv]]
            td.notes["default_variant"] = dv
        else:
            targets = td.variants
        for v in targets:
            for f in v.fields:
                if f.sem.get("_constarr"):
                    f.sem["Default"] = {"expr": "%szs::<%s>()" % (RT, td.notes["const"]), "val": None}
                    continue
                if "Default" not in f.kind.caps or rng.random() < pa * 0.6:
                    a = rng.randrange(f.kind.dom)
                    f.sem["Default"] = {"expr": f.kind.dexpr("7", f.slot, a), "val": a}

    for tr in ("Deref", "DerefMut"):
        if tr not in tset:
            continue
        td.tsem[tr] = {}
        for v in td.variants:
            f = v.des[tr]
            if len(v.fields) == 1 and rng.random() < 0.5:
                f.sem[tr] = {"implicit": True}
            else:
                f.sem[tr] = {"flag": True}

    if "Into" in tset:
        tinfo = []
        for tgt in td.notes["into_targets"]:
            for v in td.variants:
                f, mode = v.des["Into"][tgt]
                same = [x for x in v.fields if x.ty == tgt]
                if mode == "auto":
                    if len(v.fields) == 1:
                        mode = "sole"
                    elif len(same) == 1 and same[0] is f:
                        mode = "sametype"
                    else:
                        mode = "marker"
                e = {"ty": tgt, "mode": mode}
                if mode == "method":
                    e["method"] = RT + "into_alt"
                if mode in ("marker", "method"):
                    f.sem.setdefault("Into", []).append({k: e[k] for k in ("ty", "method") if k in e})
                f.sem.setdefault("_into", {})[tgt] = e
            tinfo.append({"ty": tgt})
        td.tsem["Into"] = {"targets": tinfo}

    if "Copy" in tset:
        td.tsem["Copy"] = {}
    if "Eq" in tset:
        td.tsem["Eq"] = {}
    if "PartialOrd" in tset and "Ord" in tset:
        td.tsem["PartialOrd"] = {}

    ev = td.tsem.get("Default", {}).get("expr_val")
    if ev:
        vi = ev[0]
        vals = tuple(rng.randrange(f.kind.dom) for f in td.variants[vi].fields)
        td.tsem["Default"]["expr"] = "dflt_value()" if not o.full_exprs else S.emit_value(td, vi, vals, side="7")
        td.tsem["Default"]["expr_val"] = (vi, vals)
        td.extra_items.append("pub fn dflt_value() -> %s {\n    %s\n}\n" %
                              (td.name, S.emit_value(td, vi, vals, side="7")))

    # some custom methods are named through a trait that is called like the std trait (`..::named::Hash::hash`)
    if o.named_methods:
        for v, f in td.all_fields():
            for t, d in f.sem.items():
                if isinstance(d, dict) and d.get("method") and d["method"].startswith(RT) and d["method"][len(RT):] in NAMED_METHODS \
                        and rng.random() < 0.12:
                    d["method_spelling"] = RT + NAMED_METHODS[d["method"][len(RT):]]

    # explicit bounds -----------------------------------------------------------------------------
    if generic and o.bounds:
        for t in td.traits:
            if t in ("Into", "Deref", "DerefMut"):
                continue
            if t == "Copy" and "Clone" in tset:
                continue
            if t == "Eq" and "PartialEq" in tset:
                continue
            if t == "PartialOrd" and "Ord" in tset:
                continue
            bt = t
            if t == "Clone" and "Copy" in tset:
                # the Clone impl of a Copy type asks for Copy on the fields
                bt = "Copy"
            if t == "Eq":
                bt = "PartialEq"
            b = bound_choice(bt, delegated_types(td, t), t)
            if b is not None:
                if t == "Copy":
                    # stand-alone Copy: Clone comes from std derive, which bounds every parameter
                    pass
                td.tsem.setdefault(t, {})["bound"] = b


    elif o.bounds and not td.params:
        # without generic parameters every bound mode means the same (no where-clause): the impl must not change with it
        for t in td.traits:
            if t in ("Into", "Deref", "DerefMut") or (t == "Copy" and "Clone" in tset) or (t == "Eq" and "PartialEq" in tset) \
                    or (t == "PartialOrd" and "Ord" in tset):
                continue
            if rng.random() < 0.12:
                td.tsem.setdefault(t, {})["bound"] = rng.choice([("none",), ("none",), ("all",)])


def delegated_types(td, trait):
    """Field types the impl for `trait` delegates to (declaration order, as written)."""
    out = []
    key = trait
    for v, f in td.all_fields():
        if trait == "Default":
            if td.kind == "enum" and td.variants.index(v) != td.notes.get("default_variant"):
                continue
            if f.sem.get("Default", {}).get("expr") is not None:
                continue
            if td.tsem.get("Default", {}).get("expr") is not None:
                continue
            out.append(f.ty)
            continue
        if trait in ("Copy", "Eq") or (trait == "Clone" and "Copy" in td.traits):
            out.append(f.ty)
            continue
        s = f.sem.get(key, {})
        if trait == "PartialOrd" and "Ord" in td.traits:
            s = f.sem.get("Ord", {})
        if s.get("ignore") or s.get("method"):
            continue
        out.append(f.ty)
    return out


INTO_TARGETS = ["u8", "u16", RT + "W"]
CONVERTIBLE = {"T", "Ct", "U8", "G"}


def designate(rng, td, o):
    """Settle the kinds of the fields that Deref/DerefMut/Into will designate (before the
    parameters-used pass may append filler fields)."""
    tset = set(td.traits)
    kinds = td.notes["kinds"]
    tk = kinds["Ct"] if "Copy" in tset else kinds["T"]
    for v in td.variants:
        v.des = {}
    if "Deref" in tset or "DerefMut" in tset:
        for v in td.variants:
            for tr in ("Deref", "DerefMut"):
                if tr not in tset:
                    continue
                f = rng.choice(v.fields)
                if tr == "DerefMut" and "Deref" in v.des and rng.random() < 0.6:
                    f = v.des["Deref"]
                f.kind = tk
                v.des[tr] = f
    if "Into" in tset:
        pool = list(INTO_TARGETS)
        if "Copy" not in tset and td.notes["garg"] in ("T",):
            pool.append(RT + "T")
        targets = rng.sample(pool, rng.randint(1, 3))
        td.notes["into_targets"] = targets
        for v in td.variants:
            v.des["Into"] = {}
            for tgt in targets:
                conv = CONVERTIBLE if tgt != RT + "T" else {"T", "G"}
                cands = [f for f in v.fields if f.kind.key in conv]
                if not cands:
                    v.fields[0].kind = tk
                    cands = [v.fields[0]]
                f = rng.choice(cands)
                v.des["Into"][tgt] = (f, rng.choice(["auto", "auto", "marker", "method"]))


# ------------------------------------------------------------------------------------------------
# trait sets

ALL_TRAITS = ["Debug", "Clone", "Copy", "PartialEq", "Eq", "PartialOrd", "Ord", "Hash", "Default",
              "Deref", "DerefMut", "Into"]

COUPLED_SETS = [["Clone", "Copy"], ["PartialEq", "Eq"], ["PartialOrd", "Ord"], ["PartialEq", "PartialOrd"],
                ["PartialEq", "Eq", "PartialOrd", "Ord"], ["PartialEq", "Eq", "Hash"], ["Deref", "DerefMut"],
                ["Clone", "Copy", "PartialEq", "Eq", "PartialOrd", "Ord", "Hash", "Debug", "Default"]]


def normalise_traits(ts):
    ts = list(dict.fromkeys(ts))
    if "DerefMut" in ts and "Deref" not in ts:
        ts.append("Deref")
    return ts


def random_trait_set(rng, k=None):
    r = rng.random()
    if r < 0.25:
        ts = [rng.choice(ALL_TRAITS)]
    elif r < 0.45:
        ts = list(rng.choice(COUPLED_SETS))
    else:
        n = k or rng.randint(2, 7)
        ts = rng.sample(ALL_TRAITS, n)
    ts = normalise_traits(ts)
    rng.shuffle(ts)
    return ts
