"""setup: pre-build the runner and the dependency graph (offline)."""
from . import build as B
from .common import log


def main():
    B.build_inproc("release")
    B.build_inproc("debug")
    log("setup: in-process runner built")
    return 0
