"""setup: pre-build the runner and warm the dependency graphs (offline). Every check rebuilds what it needs
anyway; this only moves the one-off compilation of syn/quote/proc-macro2/educe/verif_rt out of the checks."""
import os

from . import behave as BH
from . import build as B
from . import harness as H
from .common import WORK, base_env, log, run


def main():
    B.build_inproc("release")
    B.build_inproc("debug")
    B.build_inproc("release", full=True)
    log("setup: in-process runner built (release, debug, release+full)")
    p = H.Program()
    p.add_case("warm", "pub mod warm {\n#[derive(::educe::Educe)]\n#[educe(Debug, Clone, PartialEq)]\npub struct S(pub u8);\n"
               "pub fn run() { ::verif_rt::guarded(\"warm\", || { ::verif_rt::begin(); ::verif_rt::obs(\"warm\", \"x\", 0, -1, "
               "&format!(\"{:?}\", S(1).clone() == S(1))); }); }\n}\n", "warm::run();")
    for release in (False, True):
        H.compile_programs("warm", {"w0": p}, release=release)
    log("setup: D1 stable targets warmed")
    try:
        BH.run_miri("warm", {"w0": p}, {})
        log("setup: Miri target warmed")
    except Exception as e:  # Miri is only needed by C04/C09/C20; they report its absence themselves
        log("setup: Miri warm-up failed: %s" % e)
    return 0
