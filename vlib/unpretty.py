"""Expansions as rustc itself sees them: `cargo +nightly rustc -- -Zunpretty=expanded` of a small crate that goes through
the REAL proc-macro entry point (not the verification hook), split into modules and impl blocks.  Used by C15 / C16 for
what the in-process expansion cannot show: attributes put in front of the whole output, dependence on source text that is
not a token (comments, byte offsets)."""
import os
import re

from . import build as B
from .common import WORK, Inconclusive, base_env, run


def expand(name, source, edition="2021"):
    """expanded text of a one-binary crate (educe only, no runtime crate)"""
    B.setup_d1(name, {"x": source}, rt=False)
    d = B.d1_dir(name)
    if edition != "2021":
        p = os.path.join(d, "Cargo.toml")
        open(p, "w").write(open(p).read().replace('edition = "2021"', 'edition = "%s"' % edition))
    tgt = os.path.join(WORK, "tgt", "d1-nightly")
    rc, out, err, wall = run(["cargo", "+nightly", "rustc", "--offline", "--bin", "x", "--", "-Zunpretty=expanded"], cwd=d,
                             env=base_env({"CARGO_TARGET_DIR": tgt}), timeout=900)
    if rc != 0:
        raise Inconclusive("cannot expand %s with the nightly toolchain: %s" % (name, err[-1500:]))
    return out


def modules(text):
    """{module name: body text} for the top-level `mod NAME { ... }` blocks of an expanded crate"""
    out = {}
    lines = text.split("\n")
    i = 0
    while i < len(lines):
        m = re.match(r"^(?:pub )?mod ([A-Za-z0-9_]+) \{$", lines[i])
        if m:
            j = i + 1
            while j < len(lines) and lines[j] != "}":
                j += 1
            out[m.group(1)] = "\n".join(lines[i + 1:j])
            i = j
        i += 1
    return out


def impl_blocks(body):
    """[(header line(s) up to the opening brace, full block text incl. the attribute lines in front of it)]"""
    out = []
    lines = body.split("\n")
    i = 0
    attrs = []
    while i < len(lines):
        l = lines[i]
        st = l.strip()
        if st.startswith("#["):
            attrs.append(l)
            i += 1
            continue
        if st.startswith("impl") and (len(st) == 4 or st[4] in " <"):
            ind = len(l) - len(l.lstrip())
            j = i
            while j < len(lines) and not (lines[j].rstrip() == " " * ind + "}" or (j == i and lines[j].rstrip().endswith("{}")) or
                                          (j == i and lines[j].rstrip().endswith("{ }"))):
                j += 1
            block = "\n".join(attrs + lines[i:j + 1])
            hdr = []
            for k in range(i, j + 1):
                hdr.append(lines[k].strip())
                if lines[k].rstrip().endswith("{") or lines[k].rstrip().endswith("}"):
                    break
            out.append((" ".join(hdr), block))
            attrs = []
            i = j + 1
            continue
        if st:
            attrs = []
        i += 1
    return out
