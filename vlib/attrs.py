"""Attribute grammar: semantic parameters -> every documented spelling.

A trait entry is (trait, params) where params is a list of (name, kind, value):
  kind 'kw'        value ignored            -> `unsafe` (always first)
  kind 'flagbool'  value bool               -> ignore / ignore = true / ignore(true) | = false / (false)
  kind 'bool'      value bool               -> named_field = b / named_field(b)
  kind 'ident'     value str                -> name = X / name(X) / name = "X" / name("X") (+ rename)
  kind 'identbool' value str|bool           -> as ident, or name = b / name(b)
  kind 'path'      value str                -> method(p) / method = p / method = "p" / method("p")
  kind 'int'       value int                -> rank = n / rank(n) / rank = "n" / rank("n")
  kind 'expr'      value str                -> expression = e / expression(e) / expr = e / expr(e)
  kind 'bound'     value ('all',)|('none',)|('custom', [pred, ...])
  kind 'type'      value str                -> Into's leading type argument (always first)
The spellings listed are the ones property C14 declares interchangeable.
"""
import itertools


def sp_param(name, kind, value, quoted_ok=True):
    if kind == "kw":
        return [name]
    if kind == "type":
        return [value]
    if kind == "flagbool":
        if value:
            return [name, "%s = true" % name, "%s(true)" % name]
        return ["%s = false" % name, "%s(false)" % name]
    if kind == "bool":
        v = "true" if value else "false"
        return ["%s = %s" % (name, v), "%s(%s)" % (name, v)]
    if kind in ("ident", "identbool"):
        names = [name, "rename"] if name == "name" else [name]
        out = []
        if isinstance(value, bool):
            v = "true" if value else "false"
            for n in names:
                out += ["%s = %s" % (n, v), "%s(%s)" % (n, v)]
            return out
        for n in names:
            out += ["%s = %s" % (n, value), "%s(%s)" % (n, value)]
            if quoted_ok and not value.startswith("r#"):
                out += ['%s = "%s"' % (n, value), '%s("%s")' % (n, value)]
        return out
    if kind == "path":
        out = ["%s(%s)" % (name, value), "%s = %s" % (name, value)]
        if quoted_ok:
            out += ['%s = "%s"' % (name, value), '%s("%s")' % (name, value)]
        return out
    if kind == "int":
        out = ["%s = %d" % (name, value), "%s(%d)" % (name, value)]
        if quoted_ok:
            out += ['%s = "%d"' % (name, value), '%s("%d")' % (name, value)]
        if INT_RADIX and abs(value) < 2 ** 62:
            # the same integer in another radix / with separators (a negative one is `-` in front of the literal)
            sg, a = ("-" if value < 0 else ""), abs(value)
            alts = ["%s0x%X" % (sg, a), "%s0b%s" % (sg, bin(a)[2:]), "%s0o%o" % (sg, a)] + (["%s%s" % (sg, "{:,}".format(a).replace(",", "_"))] if a >= 1000 else [])
            for alt in alts:
                out += ["%s = %s" % (name, alt), "%s(%s)" % (name, alt)]
                if quoted_ok:
                    out += ['%s = "%s"' % (name, alt), '%s("%s")' % (name, alt)]
        return out
    if kind == "expr":
        out = []
        for n in ("expression", "expr"):
            out += ["%s = %s" % (n, value), "%s(%s)" % (n, value)]
        return out
    if kind == "bound":
        if value[0] == "all":
            return ["bound(*)"] + (['bound = "*"', 'bound("*")'] if quoted_ok else [])
        if value[0] == "none":
            return ["bound = false", "bound(false)", 'bound = ""']
        preds = ", ".join(value[1])
        if not value[1]:
            # an empty list of predicates: the impl gets no where-clause of its own
            return ["bound()", 'bound = ""', 'bound("")']
        out = ["bound(%s)" % preds]
        if quoted_ok and '"' not in preds:
            out += ['bound = "%s"' % preds, 'bound("%s")' % preds]
        return out
    raise ValueError(kind)


FIXED_FIRST = ("kw", "type")
INT_RADIX = True    # hexadecimal / binary / octal / underscore spellings of integer parameters
DELIMITERS = True   # bracket / brace delimited `#[educe[..]]` among the random spellings


def shorthands(trait, params, level):
    """`Trait = X` forms equivalent to the entry, if any."""
    if len(params) != 1:
        return []
    name, kind, value = params[0]
    if level == "field":
        if name == "ignore" and value is True and trait in ("Debug", "PartialEq", "Eq", "PartialOrd",
                                                           "Ord", "Hash"):
            return ["%s = false" % trait]
        if name == "ignore" and value is False and trait in ("PartialEq", "Eq", "PartialOrd", "Ord", "Hash"):
            # the accepted opposite of the shorthand: the field takes part
            return ["%s = true" % trait]
        if name == "name" and trait == "Debug" and isinstance(value, str):
            out = ["Debug = %s" % value]
            if not value.startswith("r#"):
                out.append('Debug = "%s"' % value)
            return out
        if name == "expression" and trait == "Default":
            return ["Default = %s" % value]
    if level in ("type", "variant") and trait == "Debug" and name == "name" and isinstance(value, str):
        out = ["Debug = %s" % value]
        if not value.startswith("r#"):
            out.append('Debug = "%s"' % value)
        return out
    return []


def entry_spellings(trait, params, level, limit=64, quoted_ok=True, allow_shorthand=True):
    """All spellings of one trait entry (capped)."""
    if not params:
        return [trait]
    fixed = [p for p in params if p[1] in FIXED_FIRST]
    free = [p for p in params if p[1] not in FIXED_FIRST]
    out = []
    if allow_shorthand and not fixed:
        out += shorthands(trait, params, level)
    perms = list(itertools.permutations(range(len(free)))) if len(free) <= 3 else [tuple(range(len(free)))]
    for perm in perms:
        alts = [sp_param(*p, quoted_ok=quoted_ok) for p in fixed] + \
               [sp_param(*free[i], quoted_ok=quoted_ok) for i in perm]
        for combo in itertools.product(*alts):
            out.append("%s(%s)" % (trait, ", ".join(combo)))
            if len(out) >= limit:
                return out
    return out


def spell_entry(trait, params, level, rng, canonical=False, quoted_ok=True):
    if canonical:
        if not params:
            return trait
        return "%s(%s)" % (trait, ", ".join(sp_param(*p)[0] for p in params))
    if not params:
        return trait
    fixed = [p for p in params if p[1] in FIXED_FIRST]
    free = [p for p in params if p[1] not in FIXED_FIRST]
    if not fixed:
        sh = shorthands(trait, params, level)
        if sh and rng.random() < 0.3:
            return rng.choice(sh)
    free = list(free)
    rng.shuffle(free)
    parts = [rng.choice(sp_param(*p, quoted_ok=quoted_ok)) for p in fixed + free]
    return "%s(%s)" % (trait, ", ".join(parts))


def layout_attrs(entries, rng=None, mode=None, indent=""):
    """Render a list of spelled trait entries as one or several #[educe(..)] attributes."""
    if not entries:
        return ""
    if mode is None:
        mode = rng.choice(["one", "one", "split", "mixed"]) if rng else "one"

    def one(body):
        # the delimiter of an attribute's argument list is free: `#[educe(..)]`, `#[educe[..]]`, `#[educe{..}]`
        o, c = ("(", ")")
        if rng is not None and DELIMITERS and rng.random() < 0.12:
            o, c = rng.choice([("[", "]"), ("{", "}")])
        return "%s#[educe%s%s%s]\n" % (indent, o, body, c)

    if mode == "one" or len(entries) == 1:
        return one(", ".join(entries))
    if mode == "split":
        return "".join(one(e) for e in entries)
    k = rng.randrange(1, len(entries)) if rng else 1
    return one(", ".join(entries[:k])) + one(", ".join(entries[k:]))
