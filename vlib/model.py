"""Reference model of what educe is documented to generate at the level of impl headers:
which impls exist and which predicates each adds to the user's where-clause."""
import re

from . import gen as G

PATH = {
    "Debug": "::core::fmt::Debug", "Clone": "::core::clone::Clone", "Copy": "::core::marker::Copy",
    "PartialEq": "::core::cmp::PartialEq", "Eq": "::core::cmp::Eq",
    "PartialOrd": "::core::cmp::PartialOrd", "Ord": "::core::cmp::Ord", "Hash": "::core::hash::Hash",
    "Default": "::core::default::Default", "Deref": "::core::ops::Deref",
    "DerefMut": "::core::ops::DerefMut",
}


def nows(s):
    return re.sub(r"\s+", "", s)


def strip_refs(ty):
    t = ty.strip()
    changed = False
    while t.startswith("&"):
        changed = True
        t = t[1:].lstrip()
        m = re.match(r"'[A-Za-z_][A-Za-z0-9_]*\s*", t)
        if m:
            t = t[m.end():]
        if t.startswith("mut "):
            t = t[4:].lstrip()
    return t, changed


def into_hash_type(ty):
    """educe's notion of type identity for Into targets: references become &'static <innermost>"""
    t, changed = strip_refs(ty)
    return nows("&'static " + t if changed else t)


def compared_fields(td, v, trait):
    """non-ignored fields of variant v for an ordering trait, in ascending rank"""
    out = []
    for f in v.fields:
        s = f.sem.get(trait, {})
        if s.get("ignore"):
            continue
        rank = s.get("rank")
        if rank is None:
            rank = G.ISIZE_MIN + f.slot
        out.append((rank, f))
    out.sort(key=lambda x: x[0])
    return [f for _, f in out]


def default_target(td):
    """(variant index) that Default builds, or None with a type-level expression"""
    if td.tsem.get("Default", {}).get("expr") is not None:
        return None
    if td.kind == "enum":
        if len(td.variants) == 1:
            return 0
        for i, v in enumerate(td.variants):
            if v.sem.get("Default", {}).get("flag"):
                return i
        return None
    return 0


def union_default_field(td):
    fs = td.variants[0].fields
    if len(fs) == 1:
        return fs[0]
    for f in fs:
        s = f.sem.get("Default")
        if s and (s.get("flag") or s.get("expr") is not None):
            return f
    return None


def auto_types(td, trait, target=None):
    """(delegated field types, supertraits-on-Self) of the impl for `trait` in automatic mode."""
    ts = set(td.traits)
    types, supers = [], []
    if td.kind == "union":
        if trait in ("Debug", "PartialEq", "Hash", "Eq") and not (trait == "Eq" and "PartialEq" not in ts):
            return [], []
        if trait in ("Clone",) or (trait == "Copy" and "Clone" in ts):
            return [f.ty for f in td.variants[0].fields], []
        if trait == "Copy":
            return [f.ty for f in td.variants[0].fields], [PATH["Clone"]]
        if trait == "Eq":
            return [f.ty for f in td.variants[0].fields], [PATH["PartialEq"]]
        if trait == "Default":
            if td.tsem.get("Default", {}).get("expr") is not None:
                return [], []
            f = union_default_field(td)
            if f is not None and f.sem.get("Default", {}).get("expr") is None:
                return [f.ty], []
            return [], []
        return [], []
    allf = [f for _, f in td.all_fields()]
    if trait == "Debug":
        for f in allf:
            s = f.sem.get("Debug", {})
            if not s.get("ignore") and not s.get("method"):
                types.append(f.ty)
    elif trait == "Clone":
        if "Copy" in ts:
            types = [f.ty for f in allf]
        else:
            types = [f.ty for f in allf if not f.sem.get("Clone", {}).get("method")]
    elif trait == "Copy":
        types = [f.ty for f in allf]
        supers = [PATH["Clone"]]
    elif trait == "PartialEq":
        for f in allf:
            s = f.sem.get("PartialEq", {})
            if not s.get("ignore") and not s.get("method"):
                types.append(f.ty)
    elif trait == "Eq":
        types = [f.ty for f in allf]
        supers = [PATH["PartialEq"]]
    elif trait in ("PartialOrd", "Ord"):
        key = "Ord" if "Ord" in ts else "PartialOrd"
        for v in td.variants:
            for f in compared_fields(td, v, key):
                if not f.sem.get(key, {}).get("method"):
                    types.append(f.ty)
        if key == "Ord":
            supers = [PATH["Eq"]] + ([PATH["PartialOrd"]] if "PartialOrd" not in ts else [])
        else:
            supers = [PATH["PartialEq"]]
    elif trait == "Hash":
        for f in allf:
            s = f.sem.get("Hash", {})
            if not s.get("ignore") and not s.get("method"):
                types.append(f.ty)
    elif trait == "Default":
        vi = default_target(td)
        if vi is not None and td.variants:
            for f in td.variants[vi].fields:
                if f.sem.get("Default", {}).get("expr") is None:
                    types.append(f.ty)
    elif trait == "Into":
        for v in td.variants:
            for f in v.fields:
                e = f.sem.get("_into", {}).get(target)
                if e and not e.get("method") and into_hash_type(f.ty) != into_hash_type(target):
                    types.append(f.ty)
    return types, supers


def bound_trait_path(td, trait, target=None):
    """the trait automatic mode requires of field types in the impl for `trait`"""
    ts = set(td.traits)
    if trait == "Clone" and "Copy" in ts:
        return PATH["Copy"]
    if trait == "Eq":
        return PATH["PartialEq"]
    if trait == "Into":
        return "::core::convert::Into<%s>" % into_target_tokens(target)
    return PATH[trait]


def into_target_tokens(target):
    t, changed = strip_refs(target)
    return "&'static " + t if changed else target


def mentions_param(td, ty):
    """does the type (as written) mention a type or const parameter of the item?"""
    for p in td.params:
        if p["kind"] in ("ty", "const") and re.search(r"(?<![A-Za-z0-9_:])%s(?![A-Za-z0-9_])" % re.escape(p["name"]), ty):
            return True
    return False


def added_predicates(td, trait, bound, target=None):
    """predicates (strings) the impl for `trait` adds to the where clause under bound mode `bound`
    (None = automatic)."""
    bt = bound_trait_path(td, trait, target)
    if bound is None:
        types, supers = auto_types(td, trait, target)
        # automatic mode only bounds field types that depend on a type or const parameter
        return ["%s: %s" % (t, bt) for t in types if mentions_param(td, t)] + ["Self: %s" % s for s in supers]
    if bound[0] == "none":
        return []
    if bound[0] == "all":
        return ["%s: %s" % (p["name"], bt) for p in td.params if p["kind"] == "ty"]
    return list(bound[1])


def expected_impls(td):
    """[(impl trait path or None for inherent, [added predicates])] in any order"""
    ts = set(td.traits)
    out = []

    def b(t):
        return td.tsem.get(t, {}).get("bound")

    for t in td.traits:
        if t == "Debug":
            out.append((PATH["Debug"], added_predicates(td, "Debug", b("Debug")) if td.kind != "union" else []))
        elif t == "Clone":
            preds = added_predicates(td, "Clone", b("Clone"))
            out.append((PATH["Clone"], preds))
            if "Copy" in ts:
                out.append((PATH["Copy"], preds))
        elif t == "Copy":
            if "Clone" not in ts:
                out.append((PATH["Copy"], added_predicates(td, "Copy", b("Copy"))))
        elif t == "PartialEq":
            preds = added_predicates(td, "PartialEq", b("PartialEq")) if td.kind != "union" else []
            out.append((PATH["PartialEq"], preds))
            if "Eq" in ts:
                out.append((PATH["Eq"], preds))
        elif t == "Eq":
            if "PartialEq" not in ts:
                out.append((PATH["Eq"], added_predicates(td, "Eq", b("Eq"))))
        elif t == "PartialOrd":
            if "Ord" not in ts:
                out.append((PATH["PartialOrd"], added_predicates(td, "PartialOrd", b("PartialOrd"))))
        elif t == "Ord":
            preds = added_predicates(td, "Ord", b("Ord"))
            out.append((PATH["Ord"], preds))
            if "PartialOrd" in ts:
                out.append((PATH["PartialOrd"], preds))
        elif t == "Hash":
            out.append((PATH["Hash"], added_predicates(td, "Hash", b("Hash")) if td.kind != "union" else []))
        elif t == "Default":
            preds = added_predicates(td, "Default", b("Default"))
            out.append((PATH["Default"], preds))
            if td.tsem.get("Default", {}).get("new"):
                out.append((None, preds))
        elif t in ("Deref", "DerefMut"):
            out.append((PATH[t], []))
        elif t == "Into":
            for e in td.tsem["Into"]["targets"]:
                out.append(("::core::convert::Into<%s>" % into_target_tokens(e["ty"]),
                            added_predicates(td, "Into", e.get("bound"), e["ty"])))
    return out


def header_params(td):
    """generic parameters as they must appear in every impl header (defaults removed)"""
    out = []
    for p in td.params:
        a = (p["attr"] + " ") if p.get("attr") else ""
        if p["kind"] == "const":
            out.append(a + "const %s: %s" % (p["name"], p.get("cty", "usize")))
        else:
            out.append(a + p["name"] + (": " + " + ".join(p["bounds"]) if p.get("bounds") else ""))
    return out
