"""Differential "twin" family shared by C02 / C03 / C05 / C06 / C07: random shapes over *plain* (std) field types —
wide raw pointers, nested arrays, 1-tuples, boxed slices, floats with NaN / -0.0, i128 extremes, strings ... — with educe's
traits educed WITHOUT any parameter, next to the identical definition with std's derives.  Without parameters educe's
impls must agree with the derives: field-wise ==, lexicographic order in declaration order (variants by discriminant =
declaration order here), Debug byte-identical, clone equal to the source, and equal values feed equal data to a hasher.
The comparison runs inside the generated program (all pairs of a value set); the program reports the number of
disagreements and the first one."""
from . import behave as BH
from . import harness as H
from .common import digest, rng_for

RT = "::verif_rt::"
ALL = {"Debug", "Clone", "Copy", "PartialEq", "Eq", "PartialOrd", "Ord", "Hash"}
NOCOPY = ALL - {"Copy"}
FLOAT = {"Debug", "Clone", "Copy", "PartialEq", "PartialOrd"}

# (type, value expressions, capabilities)
POOL = [
    ("*const [u8]", ["&DATA[..2] as *const [u8]", "&DATA[..3] as *const [u8]", "&DATA[1..3] as *const [u8]", "&DATA[..0] as *const [u8]"], ALL),
    ("*const str", ["&TEXT[..2] as *const str", "&TEXT[..3] as *const str", "&TEXT[1..2] as *const str"], ALL),
    ("*mut u8", ["1usize as *mut u8", "2usize as *mut u8", "::core::ptr::null_mut()"], ALL),
    ("*const dyn ::core::fmt::Debug", ["&DATA[0] as &dyn ::core::fmt::Debug as *const dyn ::core::fmt::Debug",
                                       "&DATA[1] as &dyn ::core::fmt::Debug as *const dyn ::core::fmt::Debug"], {"Clone", "Copy"}),
    ("[[u8; 2]; 2]", ["[[0, 0], [0, 1]]", "[[0, 1], [0, 0]]", "[[1, 0], [0, 0]]"], ALL),
    ("(u8,)", ["(0,)", "(1,)", "(255,)"], ALL),
    ("(u8, i8)", ["(0, -1)", "(0, 1)", "(1, -128)"], ALL),
    ("::std::boxed::Box<[u16]>", ["::std::vec::Vec::new().into_boxed_slice()", "vec![1u16].into_boxed_slice()",
                                  "vec![1u16, 2].into_boxed_slice()", "vec![2u16].into_boxed_slice()"], NOCOPY),
    ("&'static [u8]", ["&DATA[..0]", "&DATA[..2]", "&DATA[1..3]", "&DATA[..3]"], ALL),
    ("&'static str", ["\"\"", "\"a\"", "\"ab\"", "\"b\""], ALL),
    ("f64", ["0.0", "-0.0", "1.5", "f64::NAN", "f64::NEG_INFINITY"], FLOAT),
    ("::core::option::Option<f32>", ["::core::option::Option::None", "::core::option::Option::Some(0.5)",
                                     "::core::option::Option::Some(f32::NAN)"], FLOAT),
    ("i128", ["i128::MIN", "-1", "0", "i128::MAX"], ALL),
    ("u128", ["0", "1", "u128::MAX"], ALL),
    ("::core::option::Option<::std::boxed::Box<u8>>", ["::core::option::Option::None", "::core::option::Option::Some(::std::boxed::Box::new(0))",
                                                       "::core::option::Option::Some(::std::boxed::Box::new(9))"], NOCOPY),
    ("::std::string::String", ["::std::string::String::new()", "::std::string::String::from(\"a\")", "::std::string::String::from(\"b\")"], NOCOPY),
    ("char", ["'a'", "'\\u{10FFFF}'", "'\\0'"], ALL),
    ("bool", ["false", "true"], ALL),
    ("()", ["()"], ALL),
    ("::core::cmp::Ordering", ["::core::cmp::Ordering::Less", "::core::cmp::Ordering::Greater"], ALL),
    ("::std::vec::Vec<::core::option::Option<u8>>", ["::std::vec::Vec::new()", "vec![::core::option::Option::None]",
                                                     "vec![::core::option::Option::Some(1)]"], NOCOPY),
    ("[u8; 0]", ["[]"], ALL),
    ("::core::marker::PhantomData<::std::string::String>", ["::core::marker::PhantomData"], ALL),
    ("&'static &'static u8", ["&R0", "&R1"], ALL),
    ("::core::cell::Cell<u8>", ["::core::cell::Cell::new(0)", "::core::cell::Cell::new(3)"], NOCOPY - {"Hash"}),
    ("::core::option::Option<&'static mut u8>", ["::core::option::Option::None", "::core::option::Option::Some(::std::boxed::Box::leak(::std::boxed::Box::new(1u8)))",
                                                 "::core::option::Option::Some(::std::boxed::Box::leak(::std::boxed::Box::new(2u8)))"],
     {"Debug", "PartialEq", "Eq", "PartialOrd", "Ord", "Hash"}),
    ("::std::vec::Vec<::core::option::Option<(u8, [u8; 2])>>", ["::std::vec::Vec::new()", "vec![::core::option::Option::Some((1, [2, 3]))]",
                                                               "vec![::core::option::Option::Some((1, [2, 4])), ::core::option::Option::None]"], NOCOPY),
    ("::std::rc::Rc<str>", ["::std::rc::Rc::from(\"a\")", "::std::rc::Rc::from(\"b\")", "::std::rc::Rc::from(\"\")"], NOCOPY),
    ("::std::borrow::Cow<'static, str>", ["::std::borrow::Cow::Borrowed(\"a\")", "::std::borrow::Cow::Owned(::std::string::String::from(\"a\"))",
                                          "::std::borrow::Cow::Borrowed(\"b\")"], NOCOPY),
    ("::core::num::NonZeroU8", ["::core::num::NonZeroU8::new(1).unwrap()", "::core::num::NonZeroU8::new(255).unwrap()"], ALL),
    ("(u8, u8, u8, u8, u8, u8, u8, u8, u8, u8, u8, u8)", ["(0, 0, 0, 0, 0, 0, 0, 0, 0, 0, 0, 0)", "(0, 0, 0, 0, 0, 0, 0, 0, 0, 0, 0, 1)"], ALL),
    ("fn(u8) -> u8", ["(fa as fn(u8) -> u8)", "(fb as fn(u8) -> u8)"], ALL),
    ("::core::option::Option<unsafe extern \"C\" fn(u8) -> u8>", ["::core::option::Option::None", "::core::option::Option::Some(fc as unsafe extern \"C\" fn(u8) -> u8)"], ALL),
    ("::core::time::Duration", ["::core::time::Duration::from_secs(0)", "::core::time::Duration::from_millis(1500)"], ALL),
]

# trait sets per property: (educed traits in dependency order, which comparisons the program performs)
MODES = {
    "eq": ["PartialEq", "Eq"],
    "ord": ["PartialEq", "Eq", "PartialOrd", "Ord"],
    "hash": ["PartialEq", "Eq", "Hash"],
    "dbg": ["Debug"],
    "clone": ["Clone", "Copy", "Debug", "PartialEq"],
}


def gen(seed, prop, k, mode, sweep=None):
    rng = rng_for(seed, prop, "twin", k)
    kind = rng.choice(["struct", "enum", "enum"])
    nv = 1 if kind == "struct" else rng.randint(1, 4)
    variants = []
    used = []
    for vi in range(nv):
        style = rng.choice(["named", "tuple", "unit"]) if kind == "enum" else rng.choice(["named", "tuple"])
        nf = 0 if style == "unit" else rng.randint(0 if kind == "enum" else 1, 3)
        fields = [rng.choice(POOL) for _ in range(nf)]
        used += fields
        variants.append((style, fields))
    if sweep is not None:
        # one definition per pool type: a struct (even k) or a two-variant enum (odd k) around exactly that type
        u8 = next(p for p in POOL if p[0] == "(u8,)")
        kind = "struct" if k % 2 == 0 else "enum"
        variants = [(rng.choice(["named", "tuple"]), [u8, sweep, u8])] + ([("tuple", [sweep])] if kind == "enum" else [])
        used = [u8, sweep]
    want = list(MODES[mode])
    if mode == "ord" and (rng.random() < 0.3 or (sweep is not None and k % 4 < 2)):
        # PartialOrd without Ord (its own handler)
        want = ["PartialEq", "PartialOrd"]
    caps = set(ALL)
    for _, _, c in used:
        caps &= c
    traits = [t for t in want if t in caps]
    # coupled traits need their partners
    if "Eq" in traits and "PartialEq" not in traits:
        traits.remove("Eq")
    if "Ord" in traits and not {"Eq", "PartialOrd"} <= set(traits):
        traits.remove("Ord")
    if "PartialOrd" in traits and "PartialEq" not in traits:
        traits.remove("PartialOrd")
    if "Copy" in traits and "Clone" not in traits:
        traits.remove("Copy")
    if "Hash" in want and "Hash" not in traits or not traits:
        return None
    if mode == "eq" and "PartialEq" not in traits or mode == "ord" and "PartialOrd" not in traits or \
            mode == "dbg" and "Debug" not in traits or mode == "clone" and "Clone" not in traits:
        return None
    shuffled = list(traits)
    if "PartialEq" in traits and "Eq" not in traits and rng.random() < 0.6:
        # educe's Eq is a marker impl without a check of the field types: educing it next to PartialEq on a type with
        # float fields is accepted, and must not change what == does
        shuffled.append("Eq")
    rng.shuffle(shuffled)

    def body(derive_line):
        if kind == "struct":
            style, fields = variants[0]
            if style == "named":
                return "%spub struct Ty {\n%s}\n" % (derive_line, "".join("    pub f%d: %s,\n" % (i, f[0]) for i, f in enumerate(fields)))
            return "%spub struct Ty(%s);\n" % (derive_line, ", ".join("pub " + f[0] for f in fields))
        vs = []
        for vi, (style, fields) in enumerate(variants):
            if style == "unit":
                vs.append("    V%d,\n" % vi)
            elif style == "named":
                vs.append("    V%d { %s },\n" % (vi, ", ".join("f%d: %s" % (i, f[0]) for i, f in enumerate(fields))))
            else:
                vs.append("    V%d(%s),\n" % (vi, ", ".join(f[0] for f in fields)))
        return "%spub enum Ty {\n%s}\n" % (derive_line, "".join(vs))
    text_e = body("#[derive(::educe::Educe)]\n#[educe(%s)]\n" % ", ".join(shuffled))
    text_d = body("#[derive(%s)]\n" % ", ".join(traits))
    # values: per variant a capped product of the field values
    ctors = []
    for vi, (style, fields) in enumerate(variants):
        combos = [[]]
        for f in fields:
            combos = [c + [v] for c in combos for v in f[1]]
        rng.shuffle(combos)
        for c in combos[:max(2, 12 // nv)]:
            path = "$m::Ty" if kind == "struct" else "$m::Ty::V%d" % vi
            if style == "unit":
                ctors.append(path)
            elif style == "named":
                ctors.append("%s { %s }" % (path, ", ".join("f%d: %s" % (i, v) for i, v in enumerate(c))))
            else:
                ctors.append("%s(%s)" % (path, ", ".join(c)))
    return gen_from(prop, "w%d" % k, text_e, text_d, ctors, traits, kind, sorted({f[0] for f in used}))


def gen_from(prop, cid, text_e, text_d, ctors, traits, kind, types):
    n = len(ctors)
    arms = "".join("            %d => %s,\n" % (i, c) for i, c in enumerate(ctors))
    glue = ("pub fn fa(x: u8) -> u8 { x }\npub fn fb(x: u8) -> u8 { x.wrapping_mul(3) }\npub unsafe extern \"C\" fn fc(x: u8) -> u8 { x ^ 1 }\n"
            "pub static DATA: [u8; 4] = [1, 2, 3, 4];\npub static TEXT: &str = \"abcd\";\npub static R0: &u8 = &7;\npub static R1: &u8 = &9;\n"
            "pub mod e {\n    #![allow(unknown_lints, ambiguous_wide_pointer_comparisons, unpredictable_function_pointer_comparisons)]\n    use super::*;\n%s}\n"
            "pub mod d {\n    #![allow(unknown_lints, ambiguous_wide_pointer_comparisons, unpredictable_function_pointer_comparisons)]\n    use super::*;\n%s}\n"
            "macro_rules! mk { ($m:ident, $i:expr) => { match $i {\n%s            _ => unreachable!(),\n        } } }\n"
            % (text_e, text_d, arms))
    checks = []
    T = set(traits)
    if "PartialEq" in T:
        checks.append("if (a == b) != (x == y) || (a != b) != (x != y) { bad += 1; if first.is_empty() { first = format!(\"==/!= of values {} and {}: educe {} {}, derive {} {}\", i, j, a == b, a != b, x == y, x != y); } }")
    if "PartialOrd" in T:
        checks.append("if ::core::cmp::PartialOrd::partial_cmp(&a, &b) != ::core::cmp::PartialOrd::partial_cmp(&x, &y) || (a < b) != (x < y) || (a <= b) != (x <= y) || (a > b) != (x > y) || (a >= b) != (x >= y) "
                      "{ bad += 1; if first.is_empty() { first = format!(\"partial_cmp / operators of values {} and {}: educe {:?}, derive {:?}\", i, j, ::core::cmp::PartialOrd::partial_cmp(&a, &b), ::core::cmp::PartialOrd::partial_cmp(&x, &y)); } }")
    if "Ord" in T:
        checks.append("if ::core::cmp::Ord::cmp(&a, &b) != ::core::cmp::Ord::cmp(&x, &y) { bad += 1; if first.is_empty() { first = format!(\"cmp of values {} and {}: educe {:?}, derive {:?}\", i, j, ::core::cmp::Ord::cmp(&a, &b), ::core::cmp::Ord::cmp(&x, &y)); } }")
    if "Hash" in T:
        checks.append("{ let (ha, hb, hx, hy) = (%sflat_hash(&a), %sflat_hash(&b), %sflat_hash(&x), %sflat_hash(&y)); "
                      "if (x == y && ha != hb) || ((ha == hb) != (hx == hy)) { bad += 1; if first.is_empty() { first = format!(\"hasher input of values {} and {}: educe equal = {}, derive equal = {}, derive == is {}\", i, j, ha == hb, hx == hy, x == y); } } }"
                      % (RT, RT, RT, RT))
    if "Hash" in T:
        # the same inside slices (`hash_slice` is a provided method an impl could override): the two orders of a pair feed
        # the same data exactly when they do for the derive
        checks.append("{ let (s1, s2, t1, t2) = (%sflat_hash(&[mk!(e, i), mk!(e, j)][..]), %sflat_hash(&[mk!(e, j), mk!(e, i)][..]), %sflat_hash(&[mk!(d, i), mk!(d, j)][..]), %sflat_hash(&[mk!(d, j), mk!(d, i)][..])); "
                      "if (s1 == s2) != (t1 == t2) { bad += 1; if first.is_empty() { first = format!(\"hasher input of the slices [{}, {}] and [{}, {}]: educe equal = {}, derive equal = {}\", i, j, j, i, s1 == s2, t1 == t2); } } }"
                      % (RT, RT, RT, RT))
    single = []
    if "Debug" in T:
        single.append("if format!(\"{:?}\", a) != format!(\"{:?}\", x) || format!(\"{:#?}\", a) != format!(\"{:#?}\", x) || format!(\"{:08.3?}\", a) != format!(\"{:08.3?}\", x) "
                      "{ bad += 1; if first.is_empty() { first = format!(\"Debug of value {}: educe {:?}, derive {:?}\", i, a, x); } }")
    if "Clone" in T and "Debug" in T:
        single.append("{ let c = ::core::clone::Clone::clone(&a); let mut t = mk!(e, (i + 1) % N); ::core::clone::Clone::clone_from(&mut t, &a); "
                      "if format!(\"{:?}\", c) != format!(\"{:?}\", x) || format!(\"{:?}\", t) != format!(\"{:?}\", x) { bad += 1; if first.is_empty() { first = format!(\"clone / clone_from of value {}: {:?} / {:?}, source {:?}\", i, c, t, x); } } }")
    drive = ("        const N: usize = %d;\n        let mut bad = 0usize; let mut first = String::new();\n"
             "        for i in 0..N {\n            let (a, x) = (mk!(e, i), mk!(d, i));\n            %s\n"
             "            for j in 0..N {\n                let (a, x) = (mk!(e, i), mk!(d, i)); let (b, y) = (mk!(e, j), mk!(d, j));\n                %s\n            }\n        }\n"
             "        %sbegin(); %sobs(\"%s\", \"twin\", N, -1, &format!(\"{}\\t{}\", bad, %shex(&first)));"
             % (n, "\n            ".join(single), "\n                ".join(checks), RT, RT, cid, RT))
    c = BH.Case(cid, None, text_e, [], glue=glue, drive=drive,
                info={"twin": True, "traits": traits, "n": n, "kind": kind, "types": types})
    c.module = lambda c=c: H.module(c.cid, "#![allow(unused_variables, unused_mut, unused_macros, unreachable_patterns, clippy::all)]\n" + c.glue +
                                    "pub fn run() {\n    %sguarded(\"%s\", || {\n%s\n    });\n}\n" % (RT, c.cid, c.drive))
    return c


def big_enum(prop, mode):
    """an enum with 300 unit variants and one with data in variant 299: variant indices beyond one byte"""
    traits = [t for t in MODES[mode]]
    n = 300
    vs = "".join("    V%d,\n" % i for i in range(n - 1)) + "    V%d(u8),\n" % (n - 1)
    text_e = "#[derive(::educe::Educe)]\n#[educe(%s)]\npub enum Ty {\n%s}\n" % (", ".join(traits), vs)
    text_d = "#[derive(%s)]\npub enum Ty {\n%s}\n" % (", ".join(traits), vs)
    picks = [0, 1, 2, 127, 128, 129, 254, 255, 256, 257, 298]
    ctors = ["$m::Ty::V%d" % i for i in picks] + ["$m::Ty::V299(0)", "$m::Ty::V299(1)"]
    c = gen_from(prop, "wbig", text_e, text_d, ctors, traits, "enum", ["u8"])
    return c


def big_unit_enum(prop, mode):
    """300 variants, none with data"""
    traits = [t for t in MODES[mode]]
    n = 300
    vs = "".join("    V%d,\n" % i for i in range(n))
    text_e = "#[derive(::educe::Educe)]\n#[educe(%s)]\npub enum Ty {\n%s}\n" % (", ".join(traits), vs)
    text_d = "#[derive(%s)]\npub enum Ty {\n%s}\n" % (", ".join(traits), vs)
    picks = [0, 1, 2, 127, 128, 129, 254, 255, 256, 257, 299]
    return gen_from(prop, "wbigu", text_e, text_d, ["$m::Ty::V%d" % i for i in picks], traits, "enum", [])


def mid_enums(prop, mode):
    """200 variants (more than an i8, fewer than a u8 can count), without explicit discriminants: unit-only, and mixed"""
    traits = [t for t in MODES[mode]]
    out = []
    for tag, mk in (("wmidu", lambda i: "V%d" % i), ("wmidm", lambda i: ("V%d" % i, "V%d(u8)" % i, "V%d { f: u8 }" % i, "V%d()" % i)[i % 4])):
        vs = "".join("    %s,\n" % mk(i) for i in range(200))
        text_e = "#[derive(::educe::Educe)]\n#[educe(%s)]\npub enum Ty {\n%s}\n" % (", ".join(traits), vs)
        text_d = "#[derive(%s)]\npub enum Ty {\n%s}\n" % (", ".join(traits), vs)
        picks = [0, 1, 126, 127, 128, 129, 130, 199]
        ctors = []
        for i in picks:
            d = mk(i)
            ctors.append("$m::Ty::" + (d.replace("(u8)", "(3)").replace("{ f: u8 }", "{ f: 3 }")))
        out.append(gen_from(prop, tag, text_e, text_d, ctors, traits, "enum", []))
    return out


def case_enum(prop, mode):
    """variant names that differ only in the case of their letters are different variants"""
    traits = [t for t in MODES[mode]]
    vs = "    MB(u8),\n    Mb(u8),\n    KB,\n    Kb,\n    Si { x: u8 },\n    SI { x: u8 },\n    si,\n"
    pre = "#[allow(non_camel_case_types)]\n"
    text_e = "#[derive(::educe::Educe)]\n" + pre + "#[educe(%s)]\npub enum Ty {\n%s}\n" % (", ".join(traits), vs)
    text_d = "#[derive(%s)]\n" % ", ".join(traits) + pre + "pub enum Ty {\n%s}\n" % vs
    ctors = ["$m::Ty::MB(1)", "$m::Ty::Mb(1)", "$m::Ty::KB", "$m::Ty::Kb", "$m::Ty::Si { x: 1 }", "$m::Ty::SI { x: 1 }", "$m::Ty::si"]
    return gen_from(prop, "wcase", text_e, text_d, ctors, traits, "enum", [])


def cases(seed, prop, n, mode):
    out = [big_enum(prop, mode), big_unit_enum(prop, mode), case_enum(prop, mode)] + mid_enums(prop, mode)
    for k in range(n):
        c = gen(seed, prop, k, mode)
        if c is not None:
            out.append(c)
    k = 100000
    for t in POOL:
        for rep in range(4 if mode == "ord" else 2):
            c = gen(seed, prop, k, mode, sweep=t)
            k += 1
            if c is not None:
                out.append(c)
    return out


def judge(chk, c, obs, dropped, what):
    if c.cid in dropped:
        d = dropped[c.cid][0]
        chk.violation("twin-does-not-compile|%s" % (d.get("code") or d["message"][:40]),
                      "a parameter-free request over std field types does not compile (the same definition with std's derives does):\n%s\n%s"
                      % (d.get("rendered") or d["message"], c.text), {"case.rs": c.module()})
        return
    o = obs.get(c.cid)
    if o is None or not o.began:
        chk.inconc("not-run")
        return
    files = {"case.rs": c.module()}
    if o.panic is not None or not o.ended:
        chk.violation("panic|" + (o.panic or "abort")[:60], "%s panicked/aborted: %s\n%s" % (what, o.panic, c.text), files)
        return
    if not o.recs:
        chk.inconc("incomplete-output")
        return
    op, n, j, res, ev = o.recs[0]
    if res[0] != "0":
        chk.violation("twin|%s|%s" % (what, "+".join(c.info["types"])[:60]),
                      "without parameters the educed impls must agree with std's derives on the same definition; %s disagreements, first: %s\n%s"
                      % (res[0], H.unhex(res[1]), c.text), files)
        return
    chk.held(digest(c.text), True, n * n)
    chk.count("twin/%s/%s" % (c.info["kind"], "+".join(c.info["traits"])))
    chk.sample({"case": c.cid, "source": c.text, "values": n, "pairs_compared_with_std_derive": n * n}, limit=8)
