"""Union definitions (C20, and a slice of C01/C13/C14)."""
from . import shapes as S
from .shapes import RT, Field, TypeDef, Variant

INTS = [("u8", 1, 1), ("u16", 2, 2), ("u32", 4, 4), ("u64", 8, 8), ("u128", 16, 16),
        ("i8", 1, 1), ("i16", 2, 2), ("i32", 4, 4), ("i64", 8, 8)]


def ukind(ty, size, align, generic=False):
    k = S.Kind("U:" + ty, ty, S.ALLCAPS, 1, lambda s, sl, a: "0")
    k.size, k.align = size, align
    if generic:
        k.needs = {"G"}
    return k


def union_kinds(rng):
    ks = [ukind(*i) for i in INTS]
    for n in (1, 2, 3, 4, 5, 7, 8, 12, 16):
        ks.append(ukind("[u8; %d]" % n, n, 1))
    for n in (1, 2, 3, 5):
        ks.append(ukind("[u16; %d]" % n, 2 * n, 2))
    ks.append(ukind("[u32; 3]", 12, 4))
    return ks


def random_union(rng, traits=None, generic=None, max_fields=4, name="Un"):
    td = TypeDef("union", name)
    if traits is None:
        pool = ["Debug", "PartialEq", "Hash", "Default", "CloneCopy", "Eq"]
        k = rng.randint(1, len(pool))
        chosen = rng.sample(pool, k)
        traits = []
        for t in chosen:
            if t == "CloneCopy":
                traits += ["Clone", "Copy"]
            elif t == "Eq":
                if "PartialEq" not in chosen:
                    traits.append("PartialEq")
                traits.append("Eq")
            else:
                traits.append(t)
        traits = list(dict.fromkeys(traits))
        rng.shuffle(traits)
    td.traits = traits
    ks = union_kinds(rng)
    if generic is None:
        generic = rng.random() < 0.25
    n = rng.randint(1, max_fields)
    fields = []
    names = list("abcdefgh")
    for i in range(n):
        k = rng.choice(ks)
        fields.append(Field(names[i], k, i))
    if generic:
        garg = rng.choice(["u8", "u32", "[u8; 3]", RT + "Ct"])
        size = {"u8": 1, "u32": 4, "[u8; 3]": 3}.get(garg, 4)
        align = {"u32": 4}.get(garg, 1)
        td.params.append({"kind": "ty", "name": "G", "bounds": ["::core::marker::Copy"], "arg": garg})
        fields[rng.randrange(n)].kind = ukind("G", size, align, generic=True)
    td.variants = [Variant(None, "named", fields)]
    for t in traits:
        s = {}
        if t in ("Debug", "PartialEq", "Hash"):
            s["unsafe"] = True
        if t == "Debug":
            r = rng.random()
            if r < 0.25:
                s["name"] = rng.choice(["Renamed", "other"])
            elif r < 0.45:
                s["name"] = False
            elif r < 0.55:
                s["name"] = True
        td.tsem[t] = s
    if "Default" in traits:
        i = rng.randrange(n)
        f = fields[i]
        r = rng.random()
        if f.kind.key == "U:G":
            if n > 1:
                f.sem["Default"] = {"flag": True}
            # G: Default is not given by the declaration (only Copy); instantiations implement it
            td.params[0]["bounds"].append("::core::default::Default")
        else:
            lit = default_literal(f.kind.ty, rng)
            if r < 0.5:
                f.sem["Default"] = {"expr": lit, "flag": False}
            elif n > 1 or r < 0.75:
                f.sem["Default"] = {"flag": True}
        td.notes["default_field"] = i
        if rng.random() < 0.3:
            td.tsem["Default"]["new"] = True
    if "Copy" in traits and "Clone" not in traits:
        td.other_derives = ["Clone"]
    return td


def default_literal(ty, rng):
    if ty.startswith("["):
        elem, n = ty[1:-1].split("; ")
        return "%sfill::<%s, %s>(%d)" % (RT, elem, n, rng.randrange(1, 200))
    v = rng.randrange(1, 100)
    return str(v)


def size_align(td):
    fs = td.variants[0].fields
    align = max(f.kind.align for f in fs)
    for r in td.reprs:
        pass
    size = max(f.kind.size for f in fs)
    size = (size + align - 1) // align * align
    return size, align
