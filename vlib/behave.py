"""Shared scaffold for the behavioural (E-gen) checks: emit a module per case with constructor,
fingerprint and driver glue; build natively (and under Miri on request); collect observations;
python-side fingerprints and abstract-value semantics for the oracles."""
import os
import re

from . import build as B
from . import harness as H
from . import shapes as S
from .common import NCPU, WORK, Inconclusive, base_env, log, run

RT = S.RT


class Case:
    def __init__(self, cid, td, text, vals, glue="", drive="", info=None):
        self.cid, self.td, self.text, self.vals = cid, td, text, vals
        self.glue, self.drive = glue, drive
        self.info = info or {}

    def module(self):
        body = (self.text + "".join(self.td.extra_items) + S.emit_mk(self.td, self.vals) + S.emit_fp(self.td) +
                decoys(self.td) + self.glue +
                "pub fn run() {\n    %sguarded(\"%s\", || {\n%s\n    });\n}\n" % (RT, self.cid, self.drive))
        return H.module(self.cid, body)


DECOY_FNS = [
    ("clone", "(&self) -> Self"), ("clone_from", "(&mut self, decoy_arg_b: &Self)"), ("eq", "(&self, decoy_arg_b: &Self) -> bool"),
    ("ne", "(&self, decoy_arg_b: &Self) -> bool"), ("cmp", "(&self, decoy_arg_b: &Self) -> ::core::cmp::Ordering"),
    ("partial_cmp", "(&self, decoy_arg_b: &Self) -> ::core::option::Option<::core::cmp::Ordering>"),
    ("lt", "(&self, decoy_arg_b: &Self) -> bool"), ("le", "(&self, decoy_arg_b: &Self) -> bool"), ("gt", "(&self, decoy_arg_b: &Self) -> bool"),
    ("ge", "(&self, decoy_arg_b: &Self) -> bool"), ("hash", "<DecoyH__: ::core::hash::Hasher>(&self, decoy_arg_b: &mut DecoyH__)"),
    ("fmt", "(&self, decoy_arg_b: &mut ::core::fmt::Formatter<'_>) -> ::core::fmt::Result"), ("default", "() -> Self"),
    ("into", "<DecoyX__>(self) -> DecoyX__"),
]


def decoys(td):
    """inherent associated functions of the derived type itself, named like the trait methods its impls may want to call
    on `self` / `Self` and with compatible signatures: anything but a fully qualified call ends up here and panics"""
    if td.kind == "enum" and any(v.name in dict(DECOY_FNS) for v in td.variants):
        return ""
    self_ty = td.name + ("<" + ", ".join(p["name"] for p in td.params) + ">" if td.params else "")
    where = (" where " + ", ".join(td.where)) if td.where else ""
    fns = "".join("    pub fn %s%s { ::core::panic!(\"DECOY: inherent `%s` of the derived type was called\") }\n" % (n, sig, n)
                  for n, sig in DECOY_FNS)
    from . import model as M
    hp = M.header_params(td)
    return ("#[allow(dead_code, unused_variables, clippy::all)]\nimpl%s %s%s {\n%s}\n"
            % ("<" + ", ".join(hp) + ">" if hp else "", self_ty, where, fns))


def programs(cases, nbins=None):
    nb = nbins or max(1, min(NCPU, (len(cases) + 11) // 12))
    progs = {}
    for i, sh in enumerate(H.shard(cases, nb)):
        p = H.Program()
        for c in sh:
            p.add_case(c.cid, c.module(), "%s::run();" % c.cid)
        progs["b%d" % i] = p
    return progs


def execute(name, cases, release=False, miri=False, timeout=900, nbins=None):
    """compile + run; returns ({cid: Obs}, dropped {cid: diags}, crashed bins info)"""
    progs = programs(cases, nbins)
    dropped, warns, _ = H.compile_programs(name, progs, release=release)
    dropped_all = {}
    for b in progs:
        dropped_all.update(dropped[b])
    obs = {}
    crashed = {}
    res = H.run_programs(name, progs, release=release, timeout=timeout)
    for b, (rc, o, err) in res.items():
        obs.update(o)
        if rc != 0:
            crashed[b] = (rc, err[-2000:])
    miri_obs, miri_reports = {}, {}
    if miri:
        miri_obs, miri_reports = run_miri(name, progs, dropped)
    return obs, dropped_all, crashed, miri_obs, miri_reports


MIRI_TGT = os.path.join(WORK, "tgt", "d1-miri")


def run_miri(name, progs, dropped, timeout=1500, flags="-Zmiri-ignore-leaks"):
    """cargo +nightly miri run for every bin (sources already written by compile_programs).
    Returns ({cid: Obs}, {bin: report text}) — a report means Miri stopped with an error."""
    import concurrent.futures as cf
    d = B.d1_dir(name)
    env = base_env({"CARGO_TARGET_DIR": MIRI_TGT, "MIRIFLAGS": flags})
    # build once (serial) so that the parallel runs do not fight over the build lock
    first = sorted(progs)[0]
    run(["cargo", "+nightly", "miri", "run", "--offline", "--bin", first], cwd=d, env=env, timeout=timeout)

    def one(b):
        rc, out, err, wall = run(["cargo", "+nightly", "miri", "run", "--offline", "--bin", b], cwd=d, env=env,
                                 timeout=timeout)
        return b, rc, out, err

    obs, reports = {}, {}
    with cf.ThreadPoolExecutor(max_workers=NCPU) as ex:
        for b, rc, out, err in ex.map(one, sorted(progs)):
            obs.update(H.parse_output(out))
            if rc != 0:
                reports[b] = (rc, err[-6000:])
    return obs, reports


# ------------------------------------------------------------------------------------------------
# python-side semantics of the verif_rt universe

LEAF = {"T": "T", "Ct": "C", "P": "P"}


def leaf_of(kind, garg):
    k = kind.key
    if k in ("T", "OptT", "ArrT", "TupT", "BoxT", "RefT"):
        return "T"
    if k in ("Ct", "OptCt", "ArrCt"):
        return "Ct"
    if k == "P":
        return "P"
    if k in ("G", "OptG", "ArrG", "VecG", "NestG", "WrapG", "RefG"):
        return garg
    return None


def fp_leaf(leaf, side, slot, v, gen):
    return "%s%s.%d.%d.%d" % (LEAF[leaf], side, slot, v, gen)


def fp_field(kind, garg, side, slot, a, gen=0, default=False):
    """fingerprint verif_rt's Payload::fp prints for a field of this kind built by kind.ctor(side, slot, a)
    (gen = clone generation of every leaf); default=True: the value of Default::default()."""
    k = kind.key
    leaf = leaf_of(kind, garg)

    def L(v):
        if default:
            return "%s9.99.-7.0" % LEAF[leaf]
        return fp_leaf(leaf, side, slot, v, gen)
    if k in ("T", "Ct", "P", "G"):
        return L(a)
    if k in ("OptT", "OptCt", "OptG"):
        if default or a == 0:
            return "N"
        return "S(%s)" % L(a - 1)
    if k in ("ArrT", "ArrCt", "ArrG"):
        return "[%s;%s]" % (L(a // 2), L(a % 2))
    if k == "TupT":
        return "(%s|%s)" % (L(a // 2), L(a % 2))
    if k == "BoxT":
        return "B(%s)" % L(a)
    if k == "RefT":
        return "R(%s)" % L(a)
    if k == "VecG":
        if default or a == 0:
            return "V[]"
        return "V[%s]" % L(a - 1)
    if k == "NestG":
        if default or a == 0:
            return "N"
        if a == 1:
            return "S(N)"
        return "S(S(%s))" % L(0)
    if k == "WrapG":
        return "Wr(%s)" % L(a)
    if k == "RefG":
        return "R(%s)" % L(a)
    if k == "PhG":
        return "Ph"
    if k == "U8":
        return "u8:%d" % (0 if default else a)
    if k == "ArrN":
        return "Z2"
    raise ValueError(k)


def is_nan(kind, garg, a):
    return leaf_of(kind, garg) == "P" and kind.key in ("P", "G", "WrapG", "RefG") and a == 2


def builtin_eq(kind, garg, a, b):
    if is_nan(kind, garg, a) or is_nan(kind, garg, b):
        return False
    return a == b


def builtin_pcmp(kind, garg, a, b):
    """-1/0/1 or None"""
    if is_nan(kind, garg, a) or is_nan(kind, garg, b):
        return None
    return (a > b) - (a < b)


def method_eq(m, a, b):
    if m.endswith("eq_mod2"):
        return a % 2 == b % 2
    if m.endswith("eq_le"):
        return a <= b
    raise ValueError(m)


def method_cmp(m, a, b):
    if m.endswith("cmp_rev") or m.endswith("pcmp_rev"):
        return (b > a) - (b < a)
    if m.endswith("pcmp_nan2"):
        if a == 2 or b == 2:
            return None
        return (a > b) - (a < b)
    raise ValueError(m)


SIDE_RE = re.compile(r"[TCP](\d+)\.\d+\.-?\d+\.\d+")


def method_events_ok(events):
    """every custom-method event must have received (left operand's field, right operand's field)"""
    if events == "-":
        return True, 0
    n = 0
    for e in events.split(","):
        if not e.startswith("m_"):
            continue
        n += 1
        try:
            _, args = e.split(":", 1)
            l, r = args.split("/", 1)
        except ValueError:
            continue
        ls = set(SIDE_RE.findall(l))
        rs = set(SIDE_RE.findall(r))
        if (ls and ls != {"0"}) or (rs and rs != {"1"}):
            return False, n
    return True, n


ORD = {"L": -1, "E": 0, "G": 1, "N": None}


ASAN_TGT = os.path.join(WORK, "tgt", "d1-asan")
ASAN_TRIPLE = "x86_64-unknown-linux-gnu"


def run_asan(name, progs, timeout=900):
    """build {bin: Program} with AddressSanitizer (nightly, release) and run; returns ({cid: Obs}, {bin: report}, dropped)"""
    dropped, warns, _ = H.compile_programs(name, progs, toolchain="nightly", release=True, target_dir=ASAN_TGT,
                                           rustflags="-Zsanitizer=address -Cforce-frame-pointers=yes",
                                           extra_args=["--target", ASAN_TRIPLE])
    res = H.run_programs(name, progs, release=True, target_dir=ASAN_TGT, triple=ASAN_TRIPLE, timeout=timeout,
                         env=base_env({"ASAN_OPTIONS": "detect_leaks=0:halt_on_error=1"}))
    obs, reports, dall = {}, {}, {}
    for b in progs:
        dall.update(dropped[b])
    for b, (rc, o, err) in res.items():
        obs.update(o)
        if rc != 0 and "AddressSanitizer" in err:
            reports[b] = err[:6000]
    return obs, reports, dall


def classify_miri(err):
    """'ub' (undefined behaviour / abort in the interpreted program: a verdict) or 'tool' (ICE, unsupported operation,
    resource trouble: inconclusive)"""
    if "Undefined Behavior" in err or "abnormal termination" in err:
        return "ub"
    return "tool"
