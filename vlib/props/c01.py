"""C01 — every accepted derive request expands to code that compiles (and documented forms are
accepted).  Monitor: rustc's JSON diagnostics over generated crates that use the real proc macro,
attributed to cases by line; the stripped baseline must be clean; D2 supplies accept/refuse."""
import json
import re

from .. import build as B
from .. import gen as G
from .. import harness as H
from .. import shapes as S
from .. import unions as U
from ..common import NCPU, Check, Inconclusive, digest, log, rng_for

PROP = "C01"


def gen_cases(seed, n, opts=None):
    cases = []
    for k in range(n):
        rng = rng_for(seed, PROP, "case", k)
        if rng.random() < 0.08:
            td = U.random_union(rng)
            cases.append(("c%d" % k, td, S.render(td, rng_for(seed, PROP, "spell", k), extras=False)))
            continue
        if opts is None and rng.random() < 0.02:
            # C06's wide flavour: 13..16 fields, nameless / tuple-style Debug
            from . import c06
            c = c06.gen_case(seed, k, 2, force_wide=True)
            cases.append(("c%d" % k, c.td, c.text))
            continue
        ts = G.random_trait_set(rng)
        o = opts or G.Opts(rich=rng.random() < 0.3)
        td = G.random_type(rng, ts, o)
        cases.append(("c%d" % k, td, S.render(td, rng_for(seed, PROP, "spell", k), extras=False)))
    return cases


class TextTd:
    """a case of another check's plain-text family (no TypeDef): only the text and its stripped baseline"""
    kind = "text"
    extra_items = ()

    def __init__(self, family, text):
        self.family, self.traits = family, [family]
        t = re.sub(r"#\[educe\((?:[^\[\]]|\[[^\]]*\])*\)\]\s*", "", text)
        t = t.replace("#[derive(::educe::Educe, ", "#[derive(").replace("#[derive(::educe::Educe)]\n", "")
        self.stripped = t
        self.variants = [None]


def family_cases(seed, n):
    """the literal-default, rich Into target and rich Deref families of C08 / C10 / C09: their definitions must compile too"""
    from . import c08, c09, c10
    out = []
    for k in range(n):
        for fam, mk in (("default-literals", c08.literal_case), ("into-rich-targets", c10.rich_case), ("deref-rich-fields", c09.rich_case)):
            c = mk(seed, k)
            if c is not None:
                out.append(("%s%d" % (fam[:3], k), TextTd(fam, c.text), c.text))
    return out


HAND_TEXTS = [
    # unsized last field (slices, str, trait objects): every trait that can be educed on such a struct
    ("dst-slice", "#[derive(::educe::Educe)]\n#[educe(Debug, PartialEq, Eq, PartialOrd, Ord, Hash)]\npub struct Ty {\n    pub a: u8,\n    pub b: [u8],\n}\n"),
    ("dst-str-tuple", "#[derive(::educe::Educe)]\n#[educe(Debug(named_field = false), PartialEq, Hash)]\npub struct Ty {\n    pub a: u8,\n    pub b: str,\n}\n"),
    ("dst-dyn-bare", "#[derive(::educe::Educe)]\n#[educe(Debug(name = false))]\npub struct Ty {\n    pub a: u8,\n    pub b: dyn ::core::fmt::Debug,\n}\n"),
    ("dst-tuple-struct", "#[derive(::educe::Educe)]\n#[educe(Debug, PartialEq, PartialOrd, Hash)]\npub struct Ty(pub u8, pub [u16]);\n"),
    ("dst-method", "pub fn m(_v: &[u8], f: &mut ::core::fmt::Formatter<'_>) -> ::core::fmt::Result { f.write_str(\"m\") }\n"
                   "#[derive(::educe::Educe)]\n#[educe(Debug)]\npub struct Ty {\n    pub a: u8,\n    #[educe(Debug(method(m)))]\n    pub b: [u8],\n}\n"),
    # lints attached to a field must not fire on generated code
    ("deprecated-field", "#[derive(::educe::Educe)]\n#[educe(Default(new), Debug, Clone, PartialEq, Hash, PartialOrd)]\npub struct Ty {\n"
                         "    #[deprecated]\n    #[educe(Default = 5)]\n    pub x: u8,\n    #[deprecated]\n    pub y: u8,\n}\n"),
    ("deprecated-variant-field", "#[derive(::educe::Educe)]\n#[educe(Default, Debug, Clone, PartialEq)]\npub enum Ty {\n    #[educe(Default)]\n    V {\n"
                                 "        #[deprecated]\n        #[educe(Default = 5)]\n        x: u8,\n        #[deprecated]\n        y: u8,\n    },\n    W,\n}\n"),
    # field types that differ only in lifetimes
    ("two-lifetimes-one-parameter", "#[derive(::educe::Educe)]\n#[educe(Debug, Clone, PartialEq, Eq, PartialOrd, Ord, Hash)]\n"
                                    "pub struct Ty<'a, 'b, T> {\n    pub a: &'a T,\n    pub b: &'b T,\n}\n"),
    ("two-lifetimes-nested", "#[derive(::educe::Educe)]\n#[educe(Debug, Clone, PartialEq, Hash)]\npub enum Ty<'a, 'b, T, U> {\n"
                             "    A(::std::vec::Vec<&'a T>, U),\n    B { x: ::std::vec::Vec<&'b T>, y: &'a U, z: &'b U },\n}\n"),
    ("two-lifetimes-phantom", "#[derive(::educe::Educe)]\n#[educe(Debug, PartialEq, Default)]\npub struct Ty<'a, 'b, T>(\n"
                              "    pub ::core::marker::PhantomData<&'a T>,\n    pub ::core::marker::PhantomData<&'b T>,\n    pub ::core::option::Option<&'a T>,\n);\n"),
    ("two-lifetimes-in-tuples", "#[derive(::educe::Educe)]\n#[educe(Debug, Clone, PartialEq, Eq, PartialOrd, Ord, Hash)]\n"
                                "pub struct Ty<'a, 'b, T> {\n    pub a: (&'a T, u8),\n    pub b: (&'b T, u8),\n}\n"),
    ("two-lifetimes-in-arrays", "#[derive(::educe::Educe)]\n#[educe(Debug, Clone, PartialEq, Hash)]\n"
                                "pub enum Ty<'a, 'b, T> {\n    A([&'a T; 2], [&'b T; 2]),\n    B { x: [(&'b T, &'a T); 1], y: [(&'a T, &'b T); 1] },\n}\n"),
    # (no PartialEq: comparing function pointers draws rustc's own lint, with std's derive as well)
    ("two-lifetimes-in-fn-pointers", "#[derive(::educe::Educe)]\n#[educe(Debug, Clone, Hash)]\n"
                                     "pub struct Ty<'a, 'b, T>(pub fn(&'a T) -> u8, pub fn(&'b T) -> u8, pub ::core::option::Option<(&'a T,)>, pub ::core::option::Option<(&'b T,)>);\n"),
    ("two-lifetimes-and-a-bystander", "#[derive(::educe::Educe)]\n#[educe(Debug, Clone, PartialEq, Hash, Default)]\n"
                                      "pub struct Ty<'a, 'b, T, U> {\n    pub m: ::core::marker::PhantomData<U>,\n    pub a: ::core::option::Option<&'a T>,\n"
                                      "    pub b: ::core::option::Option<&'b T>,\n    pub n: ::core::option::Option<U>,\n}\n"),
    # ... where one of the two is `'static`, or elided inside a function pointer
    ("static-and-named-lifetime", "#[derive(::educe::Educe)]\n#[educe(Debug, Clone, PartialEq, Eq, PartialOrd, Ord, Hash)]\n"
                                  "pub struct Ty<'a, T: 'static> {\n    pub a: &'a T,\n    pub b: &'static T,\n}\n"),
    ("static-and-named-lifetime-slices", "#[derive(::educe::Educe)]\n#[educe(Debug, PartialEq, PartialOrd, Clone, Hash)]\n"
                                         "pub enum Ty<'a, T: 'static> {\n    Local(&'a [T]),\n    Builtin(&'static [T]),\n    Both(::core::option::Option<&'static T>, ::core::option::Option<&'a T>),\n}\n"),
    ("static-named-and-a-third", "#[derive(::educe::Educe)]\n#[educe(Debug, Clone, PartialEq, Hash)]\n"
                                 "pub struct Ty<'a, 'b, T: 'static>(pub &'static T, pub &'a T, pub &'b T, pub &'static T);\n"),
    ("elided-and-named-in-fn-pointers", "#[derive(::educe::Educe)]\n#[educe(Debug, Clone, Hash)]\n"
                                        "pub struct Ty<'a, T: 'static>(pub fn(&T) -> u8, pub fn(&'a T) -> u8, pub for<'x> fn(&'x T) -> u8, pub fn(&'static T) -> u8);\n"),
    ("twins-without-parameters-before-a-generic-field", "#[derive(::educe::Educe)]\n#[educe(Debug, Clone, PartialEq, Hash, Default)]\n"
                                                        "pub struct Ty<'a, 'b, T> {\n    pub first: &'a str,\n    pub second: &'b str,\n    pub marker: ::core::marker::PhantomData<T>,\n}\n"),
    # legal oddities of the item syntax
    ("where-empty", "#[derive(::educe::Educe)]\n#[educe(Debug, Clone, PartialEq, Eq, PartialOrd, Ord, Hash, Default)]\npub struct Ty<T> where {\n    pub a: T,\n    pub b: u8,\n}\n"),
    ("where-empty-tuple", "#[derive(::educe::Educe)]\n#[educe(Debug, Clone, PartialEq, Eq, PartialOrd, Ord, Hash, Default)]\npub struct Ty<T>(pub T, pub u8) where;\n"),
    ("where-empty-enum", "#[derive(::educe::Educe)]\n#[educe(Debug, Clone, PartialEq, Eq, PartialOrd, Ord, Hash, Default)]\npub enum Ty<T> where {\n    #[educe(Default)]\n    V(T, u8),\n    W,\n}\n"),
    ("where-empty-bound", "#[derive(::educe::Educe)]\n#[educe(Debug, Clone, PartialEq, Hash)]\npub struct Ty<'a, T> where T:, 'a:, {\n    pub a: T,\n    pub b: &'a u8,\n}\n"),
    ("generics-empty", "#[derive(::educe::Educe)]\n#[educe(Debug, Clone, PartialEq, Eq, PartialOrd, Ord, Hash, Default)]\npub struct Ty<> {\n    pub a: u8,\n}\n"),
    ("generics-trailing", "#[derive(::educe::Educe)]\n#[educe(Debug, Clone, PartialEq, Hash)]\npub struct Ty<T: Sized +, const N: usize,> where for<> T: Sized, {\n    pub a: [T; N],\n}\n"),
    ("generics-paren-bound", "#[derive(::educe::Educe)]\n#[educe(Debug, Clone, PartialEq, Eq, PartialOrd, Ord, Hash, Default)]\npub enum Ty<T: (Sized)> {\n    #[educe(Default)]\n    V { a: T },\n}\n"),
    # (round 7) the custom method of Debug is an ordinary path of the impl: Self, the impl's own bound, Self predicates
    ("debug-method-self", "#[derive(::educe::Educe)]\n#[educe(Debug)]\npub struct Ty {\n    #[educe(Debug(method = Self::show))]\n    pub a: u8,\n}\n"
                          "impl Ty {\n    fn show(v: &u8, f: &mut ::core::fmt::Formatter<'_>) -> ::core::fmt::Result { ::core::fmt::Debug::fmt(v, f) }\n}\n"),
    ("debug-method-needs-custom-bound", "pub trait Tr { fn name(&self) -> &'static str; }\n"
                                        "pub fn show<T: Tr>(v: &T, f: &mut ::core::fmt::Formatter<'_>) -> ::core::fmt::Result { f.write_str(v.name()) }\n"
                                        "#[derive(::educe::Educe)]\n#[educe(Debug(bound(T: Tr)))]\npub struct Ty<T> {\n    #[educe(Debug(method(show)))]\n    pub a: T,\n}\n"),
    ("debug-method-self-predicate", "pub trait Mk {}\npub fn any<T>(_v: &T, f: &mut ::core::fmt::Formatter<'_>) -> ::core::fmt::Result { f.write_str(\"a\") }\n"
                                    "#[derive(::educe::Educe)]\n#[educe(Debug, Clone)]\npub struct Ty<T> where Self: Mk {\n    #[educe(Debug(method(any)))]\n    pub a: T,\n}\n"),
    ("debug-method-self-in-field-type", "pub fn any<T>(_v: &T, f: &mut ::core::fmt::Formatter<'_>) -> ::core::fmt::Result { f.write_str(\"a\") }\n"
                                        "#[derive(::educe::Educe)]\n#[educe(Debug)]\npub enum Ty {\n    V(#[educe(Debug(method(any)))] ::core::option::Option<::std::boxed::Box<Self>>, u8),\n    W,\n}\n"),
    ("debug-method-coerces", "pub fn sm(v: &str, f: &mut ::core::fmt::Formatter<'_>) -> ::core::fmt::Result { f.write_str(v) }\n"
                             "pub fn lm(v: &[u8], f: &mut ::core::fmt::Formatter<'_>) -> ::core::fmt::Result { ::core::fmt::Debug::fmt(&v.len(), f) }\n"
                             "#[derive(::educe::Educe)]\n#[educe(Debug)]\npub struct Ty {\n    #[educe(Debug(method(sm)))]\n    pub a: ::std::string::String,\n"
                             "    #[educe(Debug(method(lm)))]\n    pub b: ::std::vec::Vec<u8>,\n}\n"),
    ("method-path-type-style", "pub struct Hh<T>(pub T);\nimpl<T> Hh<T> {\n    pub fn fl(v: &u8, f: &mut ::core::fmt::Formatter<'_>) -> ::core::fmt::Result { ::core::fmt::Debug::fmt(v, f) }\n}\n"
                               "#[derive(::educe::Educe)]\n#[educe(Debug)]\npub struct Ty {\n    #[educe(Debug(method(Hh<u16>::fl)))]\n    pub a: u8,\n"
                               "    #[educe(Debug(method(\"Hh<u32>::fl\")))]\n    pub b: u8,\n    #[educe(Debug(method = \"Hh<u64>::fl\"))]\n    pub c: u8,\n"
                               "    #[educe(Debug(method = Hh::<u8>::fl))]\n    pub d: u8,\n}\n"),
    ("raw-type-parameter", "#[derive(::educe::Educe)]\n#[educe(Debug, Clone, PartialEq, Hash, Default)]\npub struct Ty<r#T, U>(pub T, pub r#U);\n"),
    ("macro-discriminants", "macro_rules! mk { ($n:ident, $a:expr, $b:literal) => {\n#[derive(::educe::Educe)]\n#[educe(PartialEq, Eq, PartialOrd, Ord)]\n"
                            "pub enum $n {\n    A = $a,\n    B = $b,\n    C = -$b,\n    D,\n}\n} }\nmk!(Ty, 5, 2);\n"),
    ("macro-lifetime-twins", "macro_rules! mk { ($t:ty) => {\n#[derive(::educe::Educe)]\n#[educe(Debug, Clone, PartialEq)]\n"
                             "pub struct Ty<'a, 'b, T> {\n    pub a: $t,\n    pub b: &'b T,\n}\n} }\nmk!(&'a T);\n"),
    ("const-only-lifetime-twins", "#[derive(::educe::Educe)]\n#[educe(Debug, Clone, PartialEq, Hash)]\npub struct Ty<'a, 'b, const N: usize> {\n"
                                  "    pub head: &'a [u8; N],\n    pub tail: &'b [u8; N],\n}\n"),
    ("macro-crate-paths", "pub struct Level(pub u8);\nimpl ::core::default::Default for Level { fn default() -> Self { Level(3) } }\n"
                          "#[derive(Default, Debug, Clone, PartialEq)]\npub struct Slot<T>(pub T);\n"
                          "macro_rules! mk { ($n:ident) => {\n#[derive(::educe::Educe)]\n#[educe(Default, Debug, Clone, PartialEq)]\n"
                          "pub struct $n<T> {\n    pub a: $crate::Slot<T>,\n    pub b: $crate::Slot<u8>,\n}\n} }\nmk!(Ty);\n".replace("$crate::Slot", "$crate::hand_macro_crate_paths::Slot")),
    ("box-dyn-partial-eq", "pub trait Ob { fn id(&self) -> u8; }\nimpl ::core::cmp::PartialEq for dyn Ob { fn eq(&self, o: &Self) -> bool { self.id() == o.id() } }\n"
                           "#[derive(::educe::Educe)]\n#[educe(PartialEq)]\npub struct Ty {\n    pub a: ::std::boxed::Box<dyn Ob>,\n    pub b: ::std::rc::Rc<dyn Ob>,\n}\n"
                           "#[derive(::educe::Educe)]\n#[educe(PartialEq)]\npub enum Ty2 {\n    V(::std::boxed::Box<dyn Ob>, u8),\n    W { x: ::std::sync::Arc<dyn Ob> },\n}\n"),
    ("deref-dyn-with-lifetime", "pub trait Ob {}\n#[derive(::educe::Educe)]\n#[educe(Deref)]\npub struct Ty<'a>(pub &'a dyn Ob);\n"
                                "#[derive(::educe::Educe)]\n#[educe(Deref, DerefMut)]\npub struct Ty2<'a>(pub u8, #[educe(Deref, DerefMut)] pub &'a mut (dyn Ob + 'a));\n"
                                "#[derive(::educe::Educe)]\n#[educe(Deref, DerefMut)]\npub enum Ty3<'a, 'b> {\n    V(&'a mut &'b mut (dyn Ob + Send)),\n    W { #[educe(Deref, DerefMut)] x: &'b mut (dyn Ob + Send), y: u8 },\n}\n"),
    ("deprecated-union-field", "#[derive(::educe::Educe)]\n#[educe(Default, Clone, Copy)]\npub union Ty {\n    #[deprecated]\n    #[educe(Default = 5)]\n    pub x: u8,\n    pub y: u16,\n}\n"),
    ("maybe-unsized-parameter-tail", "#[derive(::educe::Educe)]\n#[educe(Debug, PartialEq, Hash)]\npub struct Ty<T: ?Sized> {\n    pub a: u8,\n    pub b: T,\n}\n"
                                     "#[derive(::educe::Educe)]\n#[educe(Debug(named_field = false), PartialEq, PartialOrd)]\npub struct Ty2<'a, T> where T: ?Sized + 'a {\n    pub a: &'a u8,\n    pub b: T,\n}\n"
                                     "#[derive(::educe::Educe)]\n#[educe(Debug)]\npub struct Ty3<T: ?Sized>(pub u8, pub T);\n"),
    # (round 8)
    ("maybe-unsized-in-a-later-predicate", "#[derive(::educe::Educe)]\n#[educe(Debug, PartialEq)]\npub struct Ty<T> where T: ::core::fmt::Debug, T: ?Sized {\n    pub id: u8,\n    pub tail: T,\n}\n"
                                           "#[derive(::educe::Educe)]\n#[educe(Debug)]\npub struct Ty2<T: ?Sized>(pub u8, pub r#T);\n"
                                           "#[derive(::educe::Educe)]\n#[educe(Debug)]\npub struct Ty3<T>(pub u8, pub T) where T: ::core::marker::Send, T: ::core::marker::Sync + ?Sized;\n"),
    ("deref-dyn-lifetime-not-last", "pub trait Ob {}\n#[derive(::educe::Educe)]\n#[educe(Deref)]\npub struct Ty<'a, 'b>(pub &'a (dyn Ob + 'b + Send));\n"
                                    "#[derive(::educe::Educe)]\n#[educe(Deref, DerefMut)]\npub struct Ty2<'a, 'b>(pub u8, #[educe(Deref, DerefMut)] pub &'a mut (dyn 'b + Ob));\n"
                                    "#[derive(::educe::Educe)]\n#[educe(Deref)]\npub enum Ty3<'a, 'b> {\n    V(&'a (dyn Send + 'b + Ob + Sync)),\n}\n"),
    ("braced-const-arguments", "#![allow(unused_braces)]\npub struct Lanes<const N: usize>(pub [u8; N]);\n"
                               "impl ::core::default::Default for Lanes<2> { fn default() -> Self { Lanes([0; 2]) } }\n"
                               "impl ::core::clone::Clone for Lanes<2> { fn clone(&self) -> Self { Lanes(self.0) } }\n"
                               "#[derive(::educe::Educe)]\n#[educe(Default, Clone)]\npub struct Ty<const N: usize> {\n"
                               "    pub lanes: Lanes<{ N }>,\n    pub tag: u8,\n}\n"),
    ("into-target-through-a-fragment", "macro_rules! mk { ($n:ident, $t:ty) => {\n#[derive(::educe::Educe)]\n#[educe(Into($t))]\npub struct $n {\n    pub a: &'static str,\n    pub b: u8,\n}\n} }\n"
                                       "mk!(Ty, &str);\nmk!(Ty2, &'static str);\n#[derive(::educe::Educe)]\n#[educe(Into(&str))]\npub struct Ty3 {\n    pub a: &'static str,\n    pub b: u8,\n}\n"),
    ("two-lifetimes-no-parameter", "#[derive(::educe::Educe)]\n#[educe(Debug, Clone, PartialEq, Eq, PartialOrd, Ord, Hash)]\n"
                                   "pub struct Ty<'a, 'b> {\n    pub a: &'a str,\n    pub b: &'b str,\n}\n"),
]


# how a field's type may be written: every syntactic class of type, behind custom methods (so that no trait bound on the
# type itself is needed) -- whatever the macro builds around the written type (references, helper impls, where-clauses)
# must still be a type
TYPE_PRELUDE = (
    "pub trait Tr { type Out; }\nimpl Tr for u8 { type Out = u16; }\npub trait Ob {}\n"
    "#[allow(unused_macros)]\nmacro_rules! ty_mac { () => { u8 } }\n"
    "pub fn dm<T: ?Sized>(_v: &T, f: &mut ::core::fmt::Formatter<'_>) -> ::core::fmt::Result { f.write_str(\"m\") }\n"
    "pub fn em<T: ?Sized>(_a: &T, _b: &T) -> bool { true }\n"
    "pub fn pm<T: ?Sized>(_a: &T, _b: &T) -> ::core::option::Option<::core::cmp::Ordering> { ::core::option::Option::Some(::core::cmp::Ordering::Equal) }\n"
    "pub fn om<T: ?Sized>(_a: &T, _b: &T) -> ::core::cmp::Ordering { ::core::cmp::Ordering::Equal }\n"
    "pub fn hm<T: ?Sized, S: ::core::hash::Hasher>(_v: &T, s: &mut S) { s.write_u8(1) }\n")
# (PartialOrd is educed through Ord when both are: one attribute serves both)
TYPE_ATTR = "#[educe(Debug(method(dm)), PartialEq(method(em)), Ord(method(om)), Hash(method(hm)))]"
TYPES_UNSIZED = [
    "dyn Ob + Send", "dyn Ob + 'static", "dyn Send + Ob + Sync", "dyn for<'x> Fn(&'x u8) -> u8 + Send", "dyn Ob", "[u8]", "str",
    "[&'static (dyn Ob + Send)]",
]
TYPES_SIZED = [
    "&'static (dyn Ob + Send)", "::std::boxed::Box<dyn Ob + Send>", "fn(u8) -> u8", "for<'x> fn(&'x u8) -> &'x u8", "*const u8",
    "*mut (dyn Ob + Send)", "(u8, u16)", "()", "[u8; 2]", "[[u8; 2]; 3]", "<u8 as Tr>::Out", "ty_mac!()", "&'static mut u8",
    "&'static &'static u8", "::core::option::Option<fn() -> u8>", "unsafe extern \"C\" fn(u8) -> u8", "&'static [u8]", "&'static str",
    "::core::marker::PhantomData<dyn Ob + Send>",
]


def type_syntax_cases():
    out = []
    head = "#[derive(::educe::Educe)]\n#[educe(Debug, PartialEq, Eq, PartialOrd, Ord, Hash)]\n"
    for i, t in enumerate(TYPES_UNSIZED + TYPES_SIZED):
        texts = [("struct", "pub struct Ty {\n    pub a: u8,\n    %s\n    pub b: %s,\n}\n" % (TYPE_ATTR, t)),
                 ("tuple", "pub struct Ty(pub u8, %s pub %s);\n" % (TYPE_ATTR, t)),
                 ("plain-debug-name-false", None)]
        if t in TYPES_SIZED:
            texts.append(("enum", "pub enum Ty {\n    V(u8, %s %s),\n    W { %s x: %s, y: u8 },\n    U,\n}\n" % (TYPE_ATTR, t, TYPE_ATTR, t)))
        for shape, body in texts:
            if body is None:
                continue
            text = TYPE_PRELUDE + head + body
            out.append(("ty%d_%s" % (i, shape), TextTd("type-syntax/" + shape, text), text))
    return out


def hand_cases():
    return [("hand_%s" % cid.replace("-", "_"), TextTd("hand/" + cid, text), text) for cid, text in HAND_TEXTS]


def norm_msg(m):
    m = re.sub(r"`[^`]*`", "`_`", m)
    m = re.sub(r"\d+", "N", m)
    return m[:90]


def judge(chk, cid, td, text, d2, errs, warns, base_problem):
    text_only = isinstance(td, TextTd)
    desc = {"family": td.family} if text_only else S.describe(td)
    key = digest(text)
    nontrivial = text_only or bool(td.variants) and (sum(len(v.fields) for v in td.variants) >= 1)
    if base_problem:
        chk.inconc("baseline-not-clean")
        log("C01: generator self-check failed for %s: %s\n%s" % (cid, base_problem[0]["message"], text))
        return
    if d2 is not None and d2.get("st") == "err":
        # a documented form on a supported shape was refused
        sig = "refused|%s" % norm_msg(d2.get("msg", ""))
        chk.violation(sig, "documented request refused by educe: %s\n%s" % (d2.get("msg"), text),
                      {"case.rs": text, "descriptor.json": json.dumps(desc, indent=1, default=str)})
        return
    if d2 is not None and d2.get("st") not in ("ok", None):
        chk.inconc("d2-" + d2.get("st"))
    if errs:
        e = errs[0]
        if e.get("code") is None and d2 is None:
            sig = "refused|%s" % norm_msg(e["message"])
        else:
            sig = "compile|%s|%s" % (e.get("code"), norm_msg(e["message"]))
        chk.violation(sig, "accepted request does not compile: %s\n%s\n%s" %
                      (e["message"], e.get("rendered", ""), text),
                      {"case.rs": text, "descriptor.json": json.dumps(desc, indent=1, default=str),
                       "diagnostics.json": json.dumps(errs, indent=1)})
        return
    if warns:
        w = warns[0]
        sig = "warning|%s|%s" % (w.get("code"), norm_msg(w["message"]))
        chk.violation(sig, "generated code draws a warning: %s\n%s\n%s" %
                      (w["message"], w.get("rendered", ""), text),
                      {"case.rs": text, "diagnostics.json": json.dumps(warns, indent=1)})
        return
    chk.held(key, nontrivial, 1)
    chk.count("%s/%s" % (td.kind, "+".join(sorted(td.traits))[:60]))
    if nontrivial:
        chk.sample({"case": cid, "source": text})


C01_HEADER = "// generated by /verif (C01)\n#![allow(dead_code)]\n"


def run_cases(chk, cases, name="c01", full=False, edition15=False):
    # D2 accept/refuse
    # (definitions written through macro_rules!, or followed by a hand-written impl, cannot be fed to the in-process
    # expansion, which takes one item: rustc is their only judge)
    d2 = B.run_inproc([(cid, text.replace("::educe::Educe", "Educe")) for cid, td, text in cases if "macro_rules!" not in text and "\nimpl" not in text and not text.startswith(("pub fn ", "pub type ", "pub struct Opaque", "pub trait ", "#![")) and text.count("::educe::Educe") == 1],
                      items=False, full=full)
    nb = max(1, min(NCPU, len(cases) // 40 or 1))
    shards = H.shard(cases, nb)
    progs, base = {}, {}
    for i, sh in enumerate(shards):
        p = H.Program(header=C01_HEADER)
        q = H.Program(header=C01_HEADER)
        for cid, td, text in sh:
            p.add_case(cid, H.module(cid, text + "".join(td.extra_items)))
            q.add_case(cid, H.module(cid, td.stripped if isinstance(td, TextTd) else S.render(td, strip=True)))
        progs["full%d" % i] = p
        base["base%d" % i] = q
    bdrop, bwarn, _ = H.compile_programs(name + "_base", base)
    tgt = None
    if full:
        # a separate target directory: the feature changes syn's feature set for the whole graph
        import os
        from ..common import WORK
        tgt = os.path.join(WORK, "tgt", "d1-full")
    dropped, warns, _ = H.compile_programs(name, progs, rounds=6, educe_features=["full"] if full else None, target_dir=tgt)
    base_problem = {}
    for b in base:
        for cid, ds in bdrop[b].items():
            base_problem[cid] = ds
        for cid, ds in bwarn.get(b, {}).items():
            if cid is not None:
                base_problem.setdefault(cid, ds)
    errs, ws = {}, {}
    for b in progs:
        errs.update(dropped[b])
        for cid, ds in warns.get(b, {}).items():
            if cid is not None:
                ws[cid] = ds
    for cid, td, text in cases:
        judge(chk, cid, td, text, d2.get(cid), errs.get(cid), ws.get(cid), base_problem.get(cid))
    if edition15:
        clean = [c for c in cases if c[0] not in errs and c[0] not in ws and c[0] not in base_problem and (d2.get(c[0]) or {}).get("st", "ok") == "ok"]
        e15 = edition_2015(chk, clean)
        for cid, td, text in clean:
            if cid in e15:
                d = e15[cid][0]
                chk.violation("edition-2015|%s|%s" % (d.get("code"), norm_msg(d["message"])),
                              "a request that compiles in an edition-2021 crate does not compile in an edition-2015 crate "
                              "(the macro's own paths are resolved by the user's edition?): %s\n%s\n%s"
                              % (d["message"], d.get("rendered", ""), text), {"case.rs": text})


def edition_2015(chk, cases):
    """the same definitions inside an edition-2015 crate: paths the macro writes itself must not be resolved by the
    edition of the USER's tokens (a leading `::` means the crate root there)"""
    # no `extern crate core` at the root (a 2015 crate does not need one): definitions that spell `::core::..` themselves
    # are left out, every `::core::` that remains is the macro's own
    pick = [c for c in cases if "macro_rules!" not in c[2] and "dyn " not in c[2] and "async" not in c[2] and "::core::" not in c[2]
            and "::core::" not in "".join(c[1].extra_items)][:400]
    hdr = ("// generated by /verif (C01, edition 2015)\n#![allow(dead_code)]\n"
           "extern crate educe;\nextern crate verif_rt;\n")
    shards = H.shard(pick, max(1, min(NCPU, len(pick) // 40)))
    progs = {}
    for i, sh in enumerate(shards):
        p = H.Program(header=hdr)
        for cid, td, text in sh:
            p.add_case(cid, H.module(cid, text + "".join(td.extra_items)))
        progs["e%d" % i] = p
    try:
        dropped, warns, _ = H.compile_programs("c01_2015", progs, rounds=6, edition="2015", subcmd="check")
    except Exception as e:
        chk.inconc("edition-2015-build")
        log("C01: edition 2015 build: %s" % e)
        return set()
    failing = set()
    for b in progs:
        failing.update(dropped[b])
    for cid, td, text in pick:
        chk.evaluations += 1
    return {cid: dropped[b][cid] for b in progs for cid in dropped[b]}


def main(tier, seed, scale=1.0):
    chk = Check(PROP, tier, seed)
    n = int((3200 if tier == "quick" else 64000) * scale)
    chk.rule = ("random struct/enum/union definitions over the verif_rt field universe x random trait "
                "subsets x documented attribute assignments in random spellings; compiled through the "
                "real proc macro; a case is non-trivial when it has >= 1 field; distinct by source text")
    chk.assumptions = ["rustc (stable) diagnostics are the oracle", "stripped baseline (no educe "
                       "attributes) must compile cleanly, otherwise the case is inconclusive"]
    batch = 1600 if tier == "quick" else 3200
    k = 0
    while k < n:
        cases = gen_cases(seed * 1000003 + k, min(batch, n - k))
        cases = [("b%d_%s" % (k, cid), td, text) for cid, td, text in cases]
        cases += [("b%d_%s" % (k, cid), td, text) for cid, td, text in family_cases(seed * 1000003 + k, len(cases) // 16)]
        if k == 0:
            cases += hand_cases() + type_syntax_cases()
        run_cases(chk, cases, edition15=(k == 0))
        k += batch
    chk.extra["d1_crates"] = (n + batch - 1) // batch
    # educe's `full` feature (syn/full): array / tuple / struct-literal expressions in Default attributes
    nf = int((480 if tier == "quick" else 8000) * scale)
    fcases = []
    for k in range(nf):
        rng = rng_for(seed, PROP, "full", k)
        ts = G.normalise_traits(["Default"] + rng.sample([t for t in G.ALL_TRAITS if t != "Default"], rng.randint(0, 3)))
        td = G.random_type(rng, ts, G.Opts(full_exprs=True, p_attr=0.9, kinds=None))
        fcases.append(("f%d" % k, td, S.render(td, rng_for(seed, PROP, "fspell", k), extras=False)))
    run_cases(chk, fcases, name="c01full", full=True)
    chk.extra["full_feature_cases"] = nf
    return chk.finish()
