"""C13 — contradictory, ambiguous or misplaced attributes are rejected, not guessed.
Every case = a valid, accepted base request (the twin) + one injected invalid construct of a class
named in the property.  Monitor: D2 Err as pre-filter; verdict from rustc's diagnostics for the same
input through the real proc macro (the case must draw an error produced by educe itself)."""
import collections
import copy
import json

from .. import attrs as A
from .. import build as B
from .. import gen as G
from .. import harness as H
from .. import model as M
from .. import shapes as S
from .. import unions as U
from ..common import NCPU, Check, digest, log, rng_for

PROP = "C13"
RT = S.RT

FIELD_TRAITS_WITH_ATTRS = ["Debug", "Clone", "PartialEq", "PartialOrd", "Ord", "Hash", "Default", "Deref",
                           "DerefMut", "Into"]
SAMPLE_FIELD_ATTR = {
    "Debug": ["Debug(ignore)", "Debug = false", "Debug(name = zz)", "Debug(method(%sfmt_alt))" % RT],
    "Clone": ["Clone(method(%sclone_alt))" % RT],
    "Copy": ["Copy"],
    "PartialEq": ["PartialEq(ignore)", "PartialEq = false", "PartialEq(method(%seq_mod2))" % RT],
    "Eq": ["Eq(ignore)", "Eq = false"],
    "PartialOrd": ["PartialOrd(ignore)", "PartialOrd(rank = 77)", "PartialOrd = false"],
    "Ord": ["Ord(ignore)", "Ord(rank = 77)", "Ord(method(%scmp_rev))" % RT],
    "Hash": ["Hash(ignore)", "Hash = false", "Hash(method(%shash_alt))" % RT],
    "Default": ["Default = 1", "Default(expression = 1)"],
    "Deref": ["Deref"],
    "DerefMut": ["DerefMut"],
    "Into": ["Into(u8)", "Into(u64)"],
}


def pick_field(rng, td, where=None):
    cands = [(v, f) for v, f in td.all_fields() if where is None or where(v, f)]
    return rng.choice(cands) if cands else (None, None)


def placements(rng, seq):
    """first / middle / last element of a sequence (indices)"""
    n = len(seq)
    opts = {0, n - 1, n // 2}
    return rng.choice(sorted(opts))


# ------------------------------------------------------------------------------------------------
# mutators: each returns (class name, hook or None) after editing td in place, or None


def m_dup_trait(rng, td):
    ts = [t for t in td.traits if t != "Into"]
    if not ts:
        return None
    t = rng.choice(ts)
    e = next((e for e in S.type_entries(td) if e[0] == t), None)
    same = A.spell_entry(t, e[1], "type", rng) if e else t
    td.tsem.setdefault("_raw", []).append(rng.choice([t, same]))
    return "trait-twice/type"


def m_dup_trait_field(rng, td):
    v, f = pick_field(rng, td, lambda v, f: any(k in f.sem for k in ("Debug", "PartialEq", "Hash", "Clone", "Default", "PartialOrd", "Ord")))
    if f is None:
        return None
    ents = [e for e in S.field_entries(td, f) if e[0] != "RAW" and e[0] != "Into"]
    if not ents:
        return None
    t, ps = rng.choice(ents)
    f.sem.setdefault("_raw", []).append(A.spell_entry(t, ps, "field", rng))
    return "trait-twice/field"


def m_dup_param(rng, td):
    """duplicate one parameter inside an entry (possibly under its alias / another spelling)"""
    sites = []
    for e in S.type_entries(td):
        if any(p[1] not in ("kw", "type") for p in e[1]):
            sites.append(("type", td, e))
    for v in td.variants:
        for e in S.variant_entries(td, v):
            if e[0] != "RAW" and e[1]:
                sites.append(("variant", v, e))
        for f in v.fields:
            for e in S.field_entries(td, f):
                if e[0] != "RAW" and any(p[1] not in ("kw", "type") for p in e[1]):
                    sites.append(("field", f, e))
    if not sites:
        return None
    level, obj, (t, ps) = rng.choice(sites)
    free = [p for p in ps if p[1] not in ("kw", "type")]
    dup = rng.choice(free)
    new_ps = list(ps)
    new_ps.insert(rng.randint(ps.index(dup), len(ps)), dup)

    def hook(lv, ob, lst):
        if lv == level and ob is obj:
            out = []
            done = False
            for tt, pp in lst:
                if not done and tt == t and pp == ps:
                    # spell by hand: the two copies may use different spellings
                    fixed = [p for p in new_ps if p[1] in ("kw", "type")]
                    rest = [p for p in new_ps if p[1] not in ("kw", "type")]
                    parts = [rng.choice(A.sp_param(*p)) for p in fixed + rest]
                    out.append(("RAW", "%s(%s)" % (t, ", ".join(parts))))
                    done = True
                else:
                    out.append((tt, pp))
            return out
        return lst
    return "parameter-twice/%s/%s" % (level, dup[0]), hook


def m_dup_rank(rng, td):
    key = "Ord" if "Ord" in td.traits else ("PartialOrd" if "PartialOrd" in td.traits else None)
    if key is None:
        return None
    vs = [v for v in td.variants if len([f for f in v.fields if not f.sem.get(key, {}).get("ignore")]) >= 2]
    if not vs:
        return None
    v = rng.choice(vs)
    fs = [f for f in v.fields if not f.sem.get(key, {}).get("ignore")]
    a, b = rng.sample(fs, 2)
    if rng.random() < 0.35:
        # an explicit rank equal to the DEFAULT rank (isize::MIN + position) of another compared field, either order
        a, b = sorted((a, b), key=lambda f: f.slot)
        ranked, plain = (a, b) if rng.random() < 0.6 else (b, a)
        carriers = [key] + (["PartialOrd"] if key == "Ord" and "PartialOrd" in td.traits else [])
        s = dict(ranked.sem.get(key, {}))
        s["rank"] = G.ISIZE_MIN + plain.slot
        s.setdefault("carrier", rng.choice(carriers))
        ranked.sem[key] = s
        if plain.sem.get(key, {}).get("rank") is not None:
            plain.sem[key] = {k: v for k, v in plain.sem[key].items() if k != "rank"}
        return "rank-twice/default-rank"
    r = rng.choice([0, 5, -3, 100])
    carriers = [key] + (["PartialOrd"] if key == "Ord" and "PartialOrd" in td.traits else [])
    for f in (a, b):
        s = dict(f.sem.get(key, {}))
        s["rank"] = r
        s.setdefault("carrier", rng.choice(carriers))
        f.sem[key] = s
    return "rank-twice"


def m_dup_into_type(rng, td):
    if "Into" not in td.traits:
        return None
    tgt = rng.choice(td.tsem["Into"]["targets"])["ty"]
    td.tsem.setdefault("_raw", []).append("Into(%s)" % tgt)
    return "into-target-twice/type"


def m_dup_into_field(rng, td):
    if "Into" not in td.traits:
        return None
    v, f = pick_field(rng, td, lambda v, f: f.sem.get("Into"))
    if f is None:
        return None
    f.sem.setdefault("_raw", []).append("Into(%s)" % f.sem["Into"][0]["ty"])
    return "into-target-twice/field"


def m_default_variant(rng, td):
    if "Default" not in td.traits or td.kind != "enum" or len(td.variants) < 2:
        return None
    if td.tsem.get("Default", {}).get("expr") is not None:
        return None
    if rng.random() < 0.5:
        for v in td.variants:
            v.sem.pop("Default", None)
            for f in v.fields:
                f.sem.pop("Default", None)
        return "default-variant-missing"
    others = [v for v in td.variants if not v.sem.get("Default", {}).get("flag")]
    rng.choice(others).sem["Default"] = {"flag": True}
    return "default-variant-twice"


def m_deref_designation(rng, td):
    tr = rng.choice(["Deref", "DerefMut"])
    if tr not in td.traits:
        return None
    vs = [v for v in td.variants if len(v.fields) >= 2]
    if not vs:
        return None
    v = rng.choice(vs)
    if rng.random() < 0.5:
        for f in v.fields:
            f.sem.pop(tr, None)
        return "%s-designation-missing" % tr.lower()
    others = [f for f in v.fields if not f.sem.get(tr)]
    rng.choice(others).sem[tr] = {"flag": True}
    return "%s-designation-twice" % tr.lower()


def m_into_designation(rng, td):
    if "Into" not in td.traits:
        return None
    tgt = rng.choice(td.tsem["Into"]["targets"])["ty"]
    vs = [v for v in td.variants if len(v.fields) >= 2]
    if not vs:
        return None
    v = rng.choice(vs)
    if rng.random() < 0.5:
        # two markers for one target
        marked = [f for f in v.fields if any(e["ty"] == tgt for e in f.sem.get("Into", []))]
        others = [f for f in v.fields if f not in marked]
        if not marked:
            a, b = rng.sample(v.fields, 2)
            a.sem.setdefault("Into", []).append({"ty": tgt})
            b.sem.setdefault("Into", []).append({"ty": tgt})
        else:
            rng.choice(others).sem.setdefault("Into", []).append({"ty": tgt})
        return "into-designation-twice"
    # no marker, and no unique field of the target type
    for f in v.fields:
        if f.sem.get("Into"):
            f.sem["Into"] = [e for e in f.sem["Into"] if e["ty"] != tgt]
    same = [f for f in v.fields if f.ty == tgt]
    if len(same) == 1:
        return None
    return "into-designation-missing"


def m_into_ambiguous(rng, td):
    """no marker for a target while two fields have exactly the target's type"""
    if "Into" not in td.traits or "Copy" in td.traits or not td.variants:
        return None
    vs = [v for v in td.variants if len(v.fields) >= 2]
    if not vs:
        return None
    tgt = RT + "T"
    kinds = td.notes["kinds"]
    if not any(e["ty"] == tgt for e in td.tsem["Into"]["targets"]):
        td.tsem["Into"]["targets"].append({"ty": tgt})
    bad = rng.choice(vs)
    for v in td.variants:
        for f in v.fields:
            if f.sem.get("Into"):
                f.sem["Into"] = [e for e in f.sem["Into"] if e["ty"] != tgt]
        if v is bad:
            a, b = rng.sample(v.fields, 2)
            for f in (a, b):
                keep = {k: s for k, s in f.sem.items() if k in ("Deref", "DerefMut", "Into", "_into")}
                f.kind, f.sem = kinds["T"], keep
        else:
            f = rng.choice(v.fields)
            keep = {k: s for k, s in f.sem.items() if k in ("Deref", "DerefMut", "Into", "_into")}
            f.kind, f.sem = kinds["T"], keep
            if len(v.fields) > 1:
                f.sem.setdefault("Into", []).append({"ty": tgt})
    return "into-designation-missing/ambiguous-same-type"


def m_trait_not_educed(rng, td):
    absent = [t for t in G.ALL_TRAITS if t not in td.traits]
    if not absent:
        return None
    t = rng.choice(absent)
    attr = rng.choice(SAMPLE_FIELD_ATTR[t])
    if td.kind == "enum" and td.variants and rng.random() < 0.3:
        v = td.variants[placements(rng, td.variants)]
        v.sem.setdefault("_raw", []).append(attr if t != "Debug" else "Debug(name = zz)")
        return "trait-not-educed/variant"
    v, f = pick_field(rng, td)
    if f is None:
        return None
    f.sem.setdefault("_raw", []).append(attr)
    return "trait-not-educed/field"


# (educed traits, partner that is NOT educed, attributes written under the partner's name)
ALIAS_PAIRS = [
    (["PartialEq"], "Eq", ["Eq(ignore)", "Eq = false", "Eq(method(%seq_mod2))" % RT, "Eq(ignore = false)"]),
    (["PartialOrd", "PartialEq"], "Ord", ["Ord(ignore)", "Ord(rank = 3)", "Ord = false", "Ord(method(%spcmp_rev))" % RT]),
    (["Ord", "Eq", "PartialEq"], "PartialOrd", ["PartialOrd(ignore)", "PartialOrd(rank = 3)", "PartialOrd = false"]),
    (["Clone"], "Copy", ["Copy"]),
    (["Eq", "PartialEq"], "PartialOrd", ["PartialOrd(ignore)"]),
]


def m_alias_not_educed(rng, td, alias):
    educed, partner, attrs = alias
    if partner in td.traits:
        return None
    v, f = pick_field(rng, td)
    if f is None:
        return None
    # the field's own attribute for the educed trait goes, so that the partner's is the only one of its family
    for k in list(f.sem):
        if k in educed or k == partner:
            f.sem.pop(k)
    f.sem.setdefault("_raw", []).append(rng.choice(attrs))
    return "trait-not-educed/partner-name/%s" % partner


def m_alias_dup(rng, td):
    """one parameter given twice under its two names, with different values"""
    DFLT = "::core::default::Default::default()"
    opts = []
    if "Debug" in td.traits:
        for v in td.variants:
            vs = v.sem.get("Debug", {})
            named = vs.get("named_field", td.tsem.get("Debug", {}).get("named_field", v.style == "named")) if td.kind == "enum" \
                else td.tsem.get("Debug", {}).get("named_field", v.style == "named")
            if named:
                opts += [("debug-field", v, f) for f in v.fields]
    if "Default" in td.traits and td.tsem.get("Default", {}).get("expr") is None:
        di = M.default_target(td)
        dv = td.variants[di] if di is not None and td.variants else None
        if dv is not None:
            opts += [("default-field", dv, f) for f in dv.fields if "Default" in f.kind.caps]
    if "Into" in td.traits:
        opts.append(("into-bound", None, None))
    if not opts:
        return None
    what, v, f = rng.choice(opts)
    if what == "debug-field":
        f.sem.pop("Debug", None)
        a = rng.choice(["name = aa", "name(aa)", "name = \"aa\""])
        b = rng.choice(["rename = bb", "rename(bb)", "rename = \"bb\""])
        two = [a, b]
        rng.shuffle(two)
        f.sem.setdefault("_raw", []).append("Debug(%s)" % ", ".join(two))
        return "parameter-twice/field/name+rename"
    if what == "default-field":
        f.sem.pop("Default", None)
        a = rng.choice(["expression = %s" % DFLT, "expression(%s)" % DFLT])
        b = rng.choice(["expr = %s" % DFLT, "expr(%s)" % DFLT])
        two = [a, b]
        rng.shuffle(two)
        f.sem.setdefault("_raw", []).append("Default(%s)" % ", ".join(two))
        return "parameter-twice/field/expression+expr"
    tgt = td.tsem["Into"]["targets"][0]["ty"]
    first = rng.choice(["bound = true", "bound(true)", "bound = false", "bound(*)"])
    second = rng.choice(["bound = false", "bound(u8: ::core::marker::Copy)", "bound = true", "bound = \"u8: Copy\""])

    def hook(lv, ob, lst):
        if lv == "type":
            out, done = [], False
            for tt, pp in lst:
                if tt == "Into" and not done:
                    out.append(("RAW", "Into(%s, %s, %s)" % (tgt, first, second)))
                    done = True
                else:
                    out.append((tt, pp))
            return out
        return lst
    return "parameter-twice/type/into-bound", hook


def m_unknown_trait(rng, td):
    attr = rng.choice(["Foo", "Foo(ignore)", "debug", "Display", "Serialize = false", "Partialeq(ignore)",
                       "std::fmt::Debug", "Debug::Foo(ignore)"])
    r = rng.random()
    if r < 0.3:
        td.tsem.setdefault("_raw", []).append(attr)
        return "unknown-trait/type"
    if r < 0.5 and td.kind == "enum" and td.variants:
        td.variants[placements(rng, td.variants)].sem.setdefault("_raw", []).append(attr)
        return "unknown-trait/variant"
    v, f = pick_field(rng, td)
    if f is None:
        return None
    f.sem.setdefault("_raw", []).append(attr)
    return "unknown-trait/field"


WRONG_PARAMS = {
    # (level, trait) -> entries that use an unknown parameter or one not accepted at that position
    ("field", "Debug"): ["Debug(foo)", "Debug(bound(*))", "Debug(named_field = false)", "Debug(rank = 1)"],
    ("field", "Clone"): ["Clone(ignore)", "Clone(bound(*))", "Clone = false", "Clone"],
    ("field", "PartialEq"): ["PartialEq(rank = 1)", "PartialEq(name = x)", "PartialEq(bound(*))", "PartialEq"],
    ("field", "PartialOrd"): ["PartialOrd(name = x)", "PartialOrd(bound(*))", "PartialOrd", "PartialOrd(new)"],
    ("field", "Ord"): ["Ord(name = x)", "Ord(bound(*))", "Ord"],
    ("field", "Hash"): ["Hash(rank = 1)", "Hash(bound(*))", "Hash", "Hash(name = x)"],
    ("field", "Default"): ["Default(new)", "Default(bound(*))", "Default(ignore)"],
    ("field", "Deref"): ["Deref(ignore)", "Deref = true"],
    ("field", "DerefMut"): ["DerefMut(ignore)", "DerefMut = true"],
    ("field", "Copy"): ["Copy", "Copy(bound(*))"],
    ("field", "Eq"): ["Eq(rank = 1)", "Eq(bound(*))", "Eq"],
    ("variant", "Debug"): ["Debug(bound(*))", "Debug(ignore)", "Debug(method(%sfmt_alt))" % RT, "Debug"],
    ("variant", "Clone"): ["Clone", "Clone(bound(*))"],
    ("variant", "PartialEq"): ["PartialEq", "PartialEq(bound(*))", "PartialEq(ignore)"],
    ("variant", "PartialOrd"): ["PartialOrd", "PartialOrd(rank = 1)"],
    ("variant", "Ord"): ["Ord", "Ord(rank = 1)"],
    ("variant", "Hash"): ["Hash", "Hash(ignore)"],
    ("variant", "Deref"): ["Deref"],
    ("variant", "DerefMut"): ["DerefMut"],
    ("variant", "Into"): ["Into(u8)"],
    ("variant", "Copy"): ["Copy"],
    ("variant", "Eq"): ["Eq"],
    ("type", "Debug"): ["Debug(ignore)", "Debug(method(%sfmt_alt))" % RT, "Debug(foo = 1)"],
    ("type", "Clone"): ["Clone(method(%sclone_alt))" % RT, "Clone = false", "Clone(name = x)"],
    ("type", "PartialEq"): ["PartialEq(ignore)", "PartialEq = false", "PartialEq(rank = 1)"],
    ("type", "Hash"): ["Hash(ignore)", "Hash = false"],
    ("type", "Default"): ["Default(ignore)", "Default = 1"],
    ("type", "Deref"): ["Deref(ignore)", "Deref = 1"],
    ("type", "PartialOrd"): ["PartialOrd(rank = 1)", "PartialOrd = false"],
    ("type", "Ord"): ["Ord(rank = 1)", "Ord(ignore)"],
    # with Clone educed the Copy impl is written by the Clone handler with Clone's where-clause: Copy takes no parameter
    ("type", "Hash"): ["Hash(ignore)", "Hash = false", "Hash(unsafe)", "Hash(unsafe, bound(*))", "Hash(unsafe,)"],
    ("type", "Debug"): ["Debug(ignore)", "Debug(method(%sfmt_alt))" % RT, "Debug(foo = 1)", "Debug(unsafe)", "Debug(unsafe, name = Zz)"],
    ("type", "PartialEq"): ["PartialEq(ignore)", "PartialEq = false", "PartialEq(rank = 1)", "PartialEq(unsafe)", "PartialEq(unsafe, bound(*))"],
    ("variant", "Hash"): ["Hash", "Hash(ignore)", "Hash(unsafe)"],
    ("field", "Hash"): ["Hash(rank = 1)", "Hash(bound(*))", "Hash", "Hash(name = x)", "Hash(unsafe)"],
    ("type", "Copy"): ["Copy(bound(*))", "Copy(bound = false)", "Copy(bound(u8: ::core::marker::Copy))", "Copy(bound = \"u8: Copy\")"],
}


def m_wrong_param(rng, td):
    level = rng.choice(["field", "field", "variant", "type"])
    ts = [t for t in td.traits if (level, t) in WRONG_PARAMS]
    if not ts:
        return None
    t = rng.choice(ts)
    attr = rng.choice(WRONG_PARAMS[(level, t)])
    if level == "type" and t == "Copy" and "Clone" not in td.traits:
        return None
    if level == "type":
        # replace the type-level entry of t
        def hook(lv, ob, lst):
            if lv == "type":
                return [("RAW", attr) if tt == t else (tt, pp) for tt, pp in lst]
            return lst
        return "parameter-not-accepted/type/%s" % t, hook
    if level == "variant":
        if td.kind != "enum" or not td.variants:
            return None
        v = td.variants[placements(rng, td.variants)]
        if t == "Debug" or t == "Default":
            v.sem.pop(t, None) if t == "Debug" else None
        if t == "Debug":
            for f in v.fields:
                pass
        v.sem.setdefault("_raw", []).append(attr)
        return "parameter-not-accepted/variant/%s" % t
    v, f = pick_field(rng, td)
    if f is None:
        return None
    # drop the field's own entry for that trait so that the only problem is the injected one
    for k in (t, "Ord" if t == "PartialOrd" else t, "PartialEq" if t == "Eq" else t):
        if k in f.sem and k not in ("Deref", "DerefMut", "Into"):
            if f.sem[k].get("carrier", k) == t:
                f.sem.pop(k)
    if t in ("Deref", "DerefMut") and f.sem.get(t):
        f.sem.pop(t)
    f.sem.setdefault("_raw", []).append(attr)
    return "parameter-not-accepted/field/%s" % t


def m_name_on_positional(rng, td):
    """`name` on a field that is shown positionally (tuple style)"""
    if "Debug" not in td.traits:
        return None

    def positional(v, f):
        if f.sem.get("Debug", {}).get("ignore"):
            return False
        if td.kind == "enum":
            nf = v.sem.get("Debug", {}).get("named_field", v.style == "named")
        else:
            nf = td.tsem.get("Debug", {}).get("named_field", v.style == "named")
        return not nf
    v, f = pick_field(rng, td, positional)
    if f is None:
        return None
    s = dict(f.sem.get("Debug", {}))
    s["name"] = "zz"
    f.sem["Debug"] = s
    return "name-on-positional-field"


def m_unit_variant(rng, td):
    ts = [t for t in ("Deref", "DerefMut", "Into") if t in td.traits]
    if not ts or td.kind != "enum":
        return None
    i = rng.choice([0, len(td.variants), len(td.variants) // 2])
    td.variants.insert(i, S.Variant("Lonely", "unit", []))
    td.variants[i].des = {}
    return "unit-variant/%s" % "+".join(ts)


def m_debug_nameless(rng, td):
    if "Debug" not in td.traits:
        return None
    if td.kind == "struct":
        v = td.variants[0]
        td.tsem.setdefault("Debug", {})["name"] = False
        for f in v.fields:
            s = dict(f.sem.get("Debug", {}))
            s.pop("name", None)
            s.pop("method", None)
            s["ignore"] = True
            f.sem["Debug"] = s
        return "debug-nameless/struct"
    if not td.variants:
        return None
    td.tsem.setdefault("Debug", {})
    if td.tsem["Debug"].get("name") not in (None, False):
        td.tsem["Debug"]["name"] = False
    v = td.variants[placements(rng, td.variants)]
    vs = dict(v.sem.get("Debug", {}))
    vs["name"] = False
    if v.style != "unit" and rng.random() < 0.5:
        # shown in the other style (named as tuple / tuple as named): still nothing to print
        vs["named_field"] = v.style != "named"
    v.sem["Debug"] = vs
    for f in v.fields:
        s = dict(f.sem.get("Debug", {}))
        s.pop("name", None)
        s.pop("method", None)
        s["ignore"] = True
        f.sem["Debug"] = s
    return "debug-nameless/variant"


def m_pair_both_on_field(rng, td):
    """PartialEq + Eq (PartialOrd + Ord) are educed together and set the same thing: a field that carries an attribute
    under both names carries it twice (the values may even contradict each other)"""
    pairs = [(a, b) for a, b in (("PartialEq", "Eq"), ("PartialOrd", "Ord")) if a in td.traits and b in td.traits]
    if not pairs:
        return None
    a, b = rng.choice(pairs)
    v, f = pick_field(rng, td)
    if f is None:
        return None
    for k in (a, b):
        f.sem.pop(k, None)
    vals = ["(ignore)", " = false", "(ignore = false)", "(ignore(true))"] + (["(rank = 3)", "(rank(-1))"] if a == "PartialOrd" else [])
    two = [a + rng.choice(vals), b + rng.choice(vals)]
    rng.shuffle(two)
    f.sem.setdefault("_raw", []).extend(two)
    return "trait-twice/field/%s+%s" % (a, b)


def m_variant_debug_twice(rng, td):
    """Debug twice on one variant: in one list, or on two attribute lines (possibly with another trait's line between)"""
    if td.kind != "enum" or "Debug" not in td.traits:
        return None
    vs = [v for v in td.variants if v.style != "unit"]
    if not vs:
        return None
    v = rng.choice(vs)
    v.sem.pop("Debug", None)
    first = rng.choice(["Debug = Alpha", "Debug(name = Alpha)", "Debug(name = \"Alpha\")", "Debug(rename = Alpha)"])
    second = rng.choice(["Debug(named_field = %s)" % ("true" if v.style == "named" else "false"), "Debug(name = Beta)", "Debug = Alpha"])
    two = [first, second]
    rng.shuffle(two)
    if rng.random() < 0.4:
        v.sem.setdefault("_raw", []).append(", ".join(two))
    else:
        v.sem.setdefault("_raw", []).extend(two)
    return "trait-twice/variant"


def m_variant_trailing_foreign(rng, td):
    """a trait that is not educed, written after the variant's own Debug entry inside the same list"""
    if td.kind != "enum" or "Debug" not in td.traits:
        return None
    absent = [t for t in ("Hash", "Clone", "PartialEq", "PartialOrd", "Default") if t not in td.traits]
    vs = [v for v in td.variants if v.style != "unit"]
    if not absent or not vs:
        return None
    v = rng.choice(vs)
    v.sem.pop("Debug", None)
    t = rng.choice(absent)
    v.sem.setdefault("_raw", []).append("Debug = Alpha, %s" % rng.choice([t, t + " = false", t + "(ignore)"]))
    return "trait-not-educed/variant-after-own"


BAD_VALUES = {
    "Debug": ["name = 5", "method = 5", "method(1 + 1)", "name(a b)"],
    "PartialEq": ["method = 5", "method(1 + 1)"],
    "Hash": ["method = 5", "method(1 + 1)"],
    "PartialOrd": ["rank = \"first\"", "rank = 1, rank(2)", "rank(first)", "method = 5", "rank = 1.5"],
    "Ord": ["rank = \"first\"", "rank = 1, rank(2)", "rank(first)", "method = 5", "rank = 1.5"],
}


def m_bad_value_next_to_ignore(rng, td):
    """a parameter with a value of the wrong kind stays wrong when the field is ignored, whichever comes first"""
    ts = [t for t in BAD_VALUES if t in td.traits and not (t == "PartialOrd" and "Ord" in td.traits)]
    if not ts:
        return None
    t = rng.choice(ts)
    v, f = pick_field(rng, td)
    if f is None:
        return None
    for k in (t, {"PartialOrd": "Ord", "Ord": "PartialOrd"}.get(t, t)):
        f.sem.pop(k, None)
    two = [rng.choice(["ignore", "ignore = true", "ignore(true)"]), rng.choice(BAD_VALUES[t])]
    if rng.random() < 0.5:
        two.reverse()
    f.sem.setdefault("_raw", []).append("%s(%s)" % (t, ", ".join(two)))
    return "bad-value-next-to-ignore/%s/%s" % (t, "ignore-first" if two[0].startswith("ignore") else "ignore-last")


class TextTd:
    extra_items = ()


def text_cases():
    """hand-laid-out requests (the order of the entries matters, which the random layouts do not control)"""
    out = []
    body = "pub struct Ty {\n    pub a: u8,\n    pub b: u16,\n}\n"
    head = "#[derive(::educe::Educe)]\n"
    # Into is the only trait that may be listed repeatedly: a second listing of any other trait stays refused next to it
    for t, again in (("Debug", "Debug(name = Renamed)"), ("Debug", "Debug(named_field = false)"), ("Clone", "Clone"),
                     ("PartialEq", "PartialEq(bound = false)"), ("Hash", "Hash"), ("Default", "Default(new)")):
        for order in ("II-T-T", "I-T-I-T", "T-II-T", "T-T-II", "I-T-T-I"):
            ents, seen_i = [], 0
            for tok in order.replace("II", "I-I").split("-"):
                if tok == "I":
                    ents.append("Into(u8)" if seen_i == 0 else "Into(u16)")
                    seen_i += 1
                else:
                    ents.append(t if t not in ents else again)
            for lay in ("lines", "one"):
                bad = head + ("".join("#[educe(%s)]\n" % e for e in ents) if lay == "lines" else "#[educe(%s)]\n" % ", ".join(ents)) + body
                good_ents = [e for e in ents if e != again] if again != t else ents[:ents.index(t) + 1] + [e for e in ents[ents.index(t) + 1:] if e != t]
                twin = head + "#[educe(%s)]\n" % ", ".join(good_ents) + body
                out.append(("trait-twice/type/next-to-two-into", bad, twin))
    # `()` is a target like any other: a unit variant has nothing to hand out, several undesignated fields are ambiguous
    for bad_body, good_body in (("pub enum Ty {\n    Ping,\n    Pair(u8, u16),\n}\n", "pub enum Ty {\n    Pair((), u16),\n}\n"),
                                ("pub enum Ty {\n    A((), ()),\n}\n", "pub enum Ty {\n    A((), u8),\n}\n"),
                                ("pub struct Ty {\n    pub a: u8,\n    pub b: u16,\n}\n", "pub struct Ty {\n    pub a: (),\n    pub b: u16,\n}\n")):
        out.append(("into-designation-missing/unit-target", head + "#[educe(Into(()))]\n" + bad_body, head + "#[educe(Into(()))]\n" + good_body))
    # `bound` belongs to the type: on a variant it is refused, also when the whole value comes from a type-level expression
    for t, lv in (("Default", "Default(expression = Ty::Number(7))"), ("Default", "Default"), ("Debug", "Debug")):
        mark = "#[educe(Default)] " if lv == "Default" else ""
        bad = head + "#[educe(%s)]\npub enum Ty<T> {\n    #[educe(%s(bound(T: ::core::marker::Copy)))]\n    %sNumber(u8),\n    Other(T),\n}\n" % (lv, t, mark)
        twin = head + "#[educe(%s)]\npub enum Ty<T> {\n    %sNumber(u8),\n    Other(T),\n}\n" % (lv, mark)
        out.append(("parameter-not-accepted/variant/bound", bad, twin))
    # `unsafe` is the keyword, not an identifier spelled like it
    for t in ("Debug", "PartialEq", "Hash"):
        for form in ("%s(r#unsafe)", "%s(r#unsafe, )", "%s(unsafe unsafe)"):
            bad = head + "#[educe(%s)]\npub union Ty {\n    pub a: u8,\n    pub b: u16,\n}\n" % (form % t)
            twin = head + "#[educe(%s(unsafe))]\npub union Ty {\n    pub a: u8,\n    pub b: u16,\n}\n" % t
            out.append(("union-without-unsafe/raw-identifier", bad, twin))
    return out


def m_type_alias_dup(rng, td):
    """the type-level Default expression under both of its names"""
    if "Default" not in td.traits or td.params:
        return None
    vi = 0
    if td.kind == "enum":
        return None
    e1 = S.emit_value(td, 0, tuple(0 for _ in td.variants[0].fields), side="7") if td.variants and td.variants[0].fields is not None else None
    if e1 is None:
        return None
    a = rng.choice(["expression = dflt_twice()", "expression(dflt_twice())"])
    b = rng.choice(["expr = dflt_twice()", "expr(dflt_twice())"])
    two = [a, b]
    rng.shuffle(two)
    mid = rng.choice(["", "new, ", "new = true, "])
    td.extra_items.append("pub fn dflt_twice() -> %s {\n    %s\n}\n" % (td.name, e1))
    for _, f in td.all_fields():
        f.sem.pop("Default", None)

    def hook(lv, ob, lst):
        if lv == "type":
            return [("RAW", "Default(%s, %s%s)" % (two[0], mid, two[1])) if tt == "Default" else (tt, pp) for tt, pp in lst]
        return lst
    return "parameter-twice/type/expression+expr", hook


def m_into_marker_unrequested(rng, td):
    """a field marker for a target the type does not ask for, next to a marker that is asked for"""
    if "Into" not in td.traits:
        return None
    asked = [e["ty"] for e in td.tsem["Into"]["targets"]]
    cands = [(v, f) for v, f in td.all_fields() if f.sem.get("Into")]
    if not cands:
        return None
    v, f = rng.choice(cands)
    other = rng.choice([t for t in ("u32", "i64", "::std::string::String", "u128") if t not in asked])
    raw = "Into(%s)" % other
    if rng.random() < 0.5:
        f.sem.setdefault("_raw", []).append(raw)
    else:
        f.sem.setdefault("_raw", []).insert(0, raw)
    return "into-marker-not-requested/next-to-a-requested-one"


def m_non_list_attribute(rng, td):
    """`#[educe]` / `#[educe = ".."]` on a field or a variant (the type refuses these forms)"""
    form = rng.choice(["#[educe]", "#[educe = \"Debug(ignore)\"]", "#[educe = \"PartialEq(ignore)\"]", "#[educe = true]"])
    if td.kind == "enum" and td.variants and rng.random() < 0.4:
        v = td.variants[placements(rng, td.variants)]
        v.sem.setdefault("_foreign", []).append(form)
        return "attribute-not-a-list/variant"
    v, f = pick_field(rng, td)
    if f is None:
        return None
    f.sem.setdefault("_foreign", []).append(form)
    return "attribute-not-a-list/field"


MUTATORS = [m_type_alias_dup, m_into_marker_unrequested, m_non_list_attribute, m_dup_trait, m_dup_trait_field, m_pair_both_on_field, m_variant_debug_twice, m_variant_trailing_foreign,
            m_bad_value_next_to_ignore, m_dup_param, m_dup_param, m_dup_rank, m_dup_into_type, m_dup_into_field,
            m_default_variant, m_deref_designation, m_into_designation, m_into_ambiguous, m_trait_not_educed, m_unknown_trait,
            m_wrong_param, m_wrong_param, m_name_on_positional, m_unit_variant, m_debug_nameless, m_alias_dup, m_alias_dup]


# union classes -----------------------------------------------------------------------------------


def union_cases(rng):
    td = U.random_union(rng)
    r = rng.random()
    ts = [t for t in ("Debug", "PartialEq", "Hash") if t in td.traits]
    if r < 0.35 and ts:
        t = rng.choice(ts)
        td.tsem[t] = {k: v for k, v in td.tsem[t].items() if k != "unsafe"}
        return "union-without-unsafe/%s" % t, td, None
    if r < 0.55:
        t = rng.choice(["PartialOrd", "Ord", "Deref", "DerefMut", "Into"])
        td.traits.append(t)
        if t == "Into":
            td.tsem["Into"] = {"targets": [{"ty": "u8"}]}
        else:
            td.tsem[t] = {}
        if t in ("PartialOrd", "Ord") and "PartialEq" not in td.traits:
            td.other_derives = td.other_derives + []
        return "union-unsupported-trait/%s" % t, td, None
    if r < 0.7 and "Default" in td.traits and len(td.variants[0].fields) >= 2:
        fs = td.variants[0].fields
        if rng.random() < 0.5:
            for f in fs:
                f.sem.pop("Default", None)
            return "default-field-missing", td, None
        others = [f for f in fs if not f.sem.get("Default")]
        if not others:
            return None
        rng.choice(others).sem["Default"] = {"flag": True}
        return "default-field-twice", td, None
    if r < 0.78 and "Default" in td.traits:
        # the whole value comes from a type-level expression: a field designation next to it contradicts it
        fs = td.variants[0].fields
        f0 = fs[0]
        for f in fs:
            f.sem.pop("Default", None)
        td.tsem["Default"] = dict(td.tsem.get("Default", {}), expr="%s { %s: ::core::default::Default::default() }" % (td.name, f0.name))
        rng.choice(fs).sem["Default"] = rng.choice([{"flag": True}, {"expr": "::core::default::Default::default()"}])
        return "union-default-expression-and-field", td, None
    if r < 0.80 and ts:
        # `unsafe` has to be a parameter of its own: no comma after it is no list at all
        t = rng.choice(ts)
        if t != "Debug":
            return None
        td.tsem[t] = {}
        form = rng.choice(["unsafe name = Zed", "unsafe name(false)", "unsafe unsafe", "unsafe; name = Zed"])

        def hook(lv, ob, lst):
            if lv == "type":
                return [("RAW", "Debug(%s)" % form) if tt == t else (tt, pp) for tt, pp in lst]
            return lst
        return "union-unsafe-without-comma", td, hook
    if r < 0.85 and ts:
        # unsafe not first
        t = rng.choice(ts)
        if t != "Debug":
            return None
        name = rng.choice(["Zed", "false"])
        td.tsem[t] = {}

        def hook(lv, ob, lst):
            if lv == "type":
                return [("RAW", "Debug(name = %s, unsafe)" % name) if tt == t else (tt, pp) for tt, pp in lst]
            return lst
        return "union-unsafe-not-first", td, hook
    f = rng.choice(td.variants[0].fields)
    t = rng.choice(td.traits)
    attr = {"Debug": rng.choice(["Debug(method(%sfmt_alt))" % RT, "Debug = false", "Debug(ignore)", "Debug = zz"]),
            "PartialEq": rng.choice(["PartialEq(ignore)", "PartialEq = false", "PartialEq(method(%seq_mod2))" % RT]),
            "Hash": rng.choice(["Hash(method(%shash_alt))" % RT, "Hash = false", "Hash(ignore)", "Hash = true"]),
            "Clone": "Clone(method(%sclone_alt))" % RT, "Copy": "Copy", "Eq": rng.choice(["Eq(ignore)", "Eq = false"]),
            "Default": None}.get(t)
    if attr is None:
        return None
    f.sem.setdefault("_raw", []).append(attr)
    return "union-field-attribute/%s" % t, td, None


FORCE_MUTATOR = None


def gen_case(seed, k):
    rng = rng_for(seed, PROP, "case", k)
    if rng.random() < 0.12:
        r = union_cases(rng)
        if r is None:
            return None
        cls, td, hook = r
        base = None
    else:
        ts = G.random_trait_set(rng)
        if rng.random() < 0.5:
            ts = G.normalise_traits(ts + rng.sample(["Debug", "Deref", "DerefMut", "Into", "Default", "Ord"], 2))
        alias = None
        if rng.random() < 0.06:
            # exactly one trait of a coupled pair is educed; the partner's name then carries a field attribute
            alias = rng.choice(ALIAS_PAIRS)
            ts = list(alias[0])
        base = G.random_type(rng, ts, G.Opts(bounds=False, p_attr=0.2) if alias else G.Opts(bounds=False))
        td = copy.deepcopy(base)
        m = (FORCE_MUTATOR or MUTATORS[k % len(MUTATORS)]) if alias is None else (lambda rng, td: m_alias_not_educed(rng, td, alias))
        r = m(rng, td)
        if r is None:
            return None
        cls, hook = r if isinstance(r, tuple) else (r, None)
    srng = rng_for(seed, PROP, "spell", k)
    bad = S.render(td, srng, extras=False, entries_hook=hook, layout=srng.choice(["one", "split", None]))
    twin = S.render(base, rng_for(seed, PROP, "spell", k), extras=False) if base is not None else None
    return cls, td, bad, twin, base


C13_HEADER = "// generated by /verif (C13)\n#![allow(dead_code)]\n"


def main(tier, seed, scale=1.0):
    chk = Check(PROP, tier, seed)
    n = int((4000 if tier == "quick" else 80000) * scale)
    chk.rule = ("valid accepted base request + one injected construct from the property's reject classes "
                "(trait/parameter/rank/Into target twice; missing or duplicate default / Deref / DerefMut / Into "
                "designation; attribute for a non-educed or unknown trait, unknown parameter, parameter not accepted "
                "at that position; union without unsafe or with an unsupported trait; unit variant under "
                "Deref/DerefMut/Into; nameless Debug) at first/middle/last placements in random spellings; "
                "verdict from rustc diagnostics through the real macro; every case is non-trivial; distinct by text")
    chk.assumptions = ["a case counts as refused when rustc reports an error without an error code (educe's "
                       "compile_error!) inside the case's line range, or the in-process expansion returns Err",
                       "the valid twin must be accepted, otherwise the case is inconclusive"]
    batch = 2000
    for k0 in range(0, n, batch):
        cases = []
        for k in range(k0, min(n, k0 + batch)):
            g = gen_case(seed, k)
            if g is None:
                continue
            cases.append(("c%d" % k,) + g)
        if k0 == 0:
            cases += [("t%d" % i, cls, TextTd, bad, twin, None) for i, (cls, bad, twin) in enumerate(text_cases())]
            # every class is exercised a minimum number of times, whatever the shapes the seed happened to draw
            global FORCE_MUTATOR
            have = collections.Counter(c[1] for c in cases)
            per_mut = collections.Counter()
            kk = 10 ** 6
            for m in MUTATORS:
                got = 0
                FORCE_MUTATOR = m
                try:
                    for _ in range(300):
                        if got >= 12:
                            break
                        g = gen_case(seed, kk)
                        kk += 1
                        if g is not None and not g[0].startswith("union"):
                            cases.append(("x%d" % kk,) + g)
                            got += 1
                finally:
                    FORCE_MUTATOR = None
        feed = []
        for cid, cls, td, bad, twin, base in cases:
            feed.append((cid, bad.replace("::educe::Educe", "Educe")))
            if twin is not None:
                feed.append((cid + "t", twin.replace("::educe::Educe", "Educe")))
        d2 = B.run_inproc(feed, items=False)
        # D1: all mutated cases in a few crates
        shards = H.shard(cases, min(NCPU, max(1, len(cases) // 150)))
        progs = {}
        for i, sh in enumerate(shards):
            p = H.Program(header=C13_HEADER)
            for cid, cls, td, bad, twin, base in sh:
                p.add_case(cid, H.module(cid, bad + "".join(td.extra_items)))
            progs["r%d" % i] = p
        dropped, warns, _ = H.compile_programs("c13", progs, rounds=8)
        errs = {}
        for b in progs:
            errs.update(dropped[b])
        for cid, cls, td, bad, twin, base in cases:
            a = d2.get(cid)
            t = d2.get(cid + "t") if twin is not None else {"st": "ok"}
            if a is None or t is None or a.get("st") in ("harness", "crash", "timeout"):
                chk.inconc("runner")
                continue
            if t.get("st") != "ok":
                chk.inconc("twin-not-accepted")
                log("C13: twin refused (%s): %s\n%s" % (cls, t.get("msg"), twin))
                continue
            chk.evaluations += 1
            es = errs.get(cid, [])
            educe_diag = [e for e in es if e.get("code") is None]
            if educe_diag:
                chk.held(digest(bad), True, 0)
                chk.count(cls.split("/")[0])
                chk.sample({"class": cls, "input": bad, "diagnostic": educe_diag[0]["message"][:200]}, limit=6)
                if a.get("st") == "ok":
                    chk.count("inproc_only:accepted-in-process-refused-by-rustc")
                continue
            if a.get("st") == "panic":
                # rustc did not show an educe diagnostic and the expansion panics in-process
                chk.inconc("panics (see C17)")
                continue
            if es:
                sig = "accepted-but-uncompilable|%s" % cls
                chk.violation(sig, "invalid construct (%s) was not refused by educe; the expansion fails to compile "
                              "instead: %s\n%s" % (cls, es[0]["message"], bad),
                              {"input.rs": bad, "diagnostics.json": json.dumps(es, indent=1)})
            else:
                sig = "accepted|%s" % cls
                chk.violation(sig, "invalid construct (%s) was accepted silently (in-process: %s)\n%s" %
                              (cls, a.get("st"), bad),
                              {"input.rs": bad, "twin.rs": twin or ""})
    return chk.finish()
