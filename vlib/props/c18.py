"""C18 — every subset of trait features builds and behaves like the full build.
Monitor: (a) rustc exit status and warning count for the real proc-macro crate compiled with each
feature subset (`-D warnings`, metadata only; the exact command line cargo uses, features
substituted) — all 4095 subsets + the empty one in thorough; (b) educe built as a library with the
hook for a subset, driving a corpus in-process: inputs that mention only enabled traits must expand
exactly as in the all-features build, inputs naming a disabled trait must be refused as
unsupported."""
import concurrent.futures as cf
import itertools
import json
import os
import re
import shlex
import shutil

from .. import build as B
from .. import gen as G
from .. import shapes as S
from .. import unions as U
from ..common import GUARD, NCPU, REPO, TRAITS, WORK, Check, Inconclusive, base_env, digest, log, rng_for, run

PROP = "C18"
EMPTY_MSG = "at least one of the trait features must be enabled"


def capture_cmd(cwd, env, crate, manifest=None):
    """the rustc command line cargo uses for `crate` (forces a rebuild of it)"""
    cmd = ["cargo", "build", "-v", "--offline"]
    if manifest:
        cmd += ["--manifest-path", manifest]
    run(["cargo", "clean", "--offline", "-p", crate] + (["--manifest-path", manifest] if manifest else []),
        cwd=cwd, env=env, timeout=300)
    rc, out, err, wall = run(cmd, cwd=cwd, env=env, timeout=900)
    lines = [l for l in err.splitlines() if "Running `" in l and "--crate-name" in l]
    return rc, lines, err


def parse_running(line):
    m = re.search(r"Running `(.*)`\s*$", line)
    s = m.group(1)
    # leading env assignments (CARGO_..=..) may precede the rustc path
    parts = shlex.split(s)
    while parts and "=" in parts[0] and not parts[0].startswith("/"):
        parts.pop(0)
    return parts


def with_features(argv, feats, extra=()):
    out = []
    i = 0
    while i < len(argv):
        a = argv[i]
        if a == "--cfg" and i + 1 < len(argv) and argv[i + 1].startswith("feature="):
            i += 2
            continue
        if a.startswith("--error-format") or a.startswith("--json"):
            i += 1
            continue
        if a == "-C" and i + 1 < len(argv) and argv[i + 1].startswith("incremental="):
            i += 2
            continue
        out.append(a)
        i += 1
    for f in feats:
        out += ["--cfg", 'feature="%s"' % f]
    out += list(extra)
    return out


def set_arg(argv, flag, value):
    """replace `flag value` / `flag=value`"""
    out = []
    i = 0
    done = False
    while i < len(argv):
        a = argv[i]
        if a == flag and i + 1 < len(argv):
            out += [flag, value]
            i += 2
            done = True
            continue
        if a.startswith(flag + "="):
            out.append(flag + "=" + value)
            done = True
            i += 1
            continue
        out.append(a)
        i += 1
    if not done:
        out += [flag, value]
    return out


def subsets_for(tier, seed):
    allsub = []
    if tier == "thorough":
        for r in range(0, 13):
            for c in itertools.combinations(TRAITS, r):
                allsub.append(list(c))
        rng = rng_for(seed, PROP, "subsets-full")
        allsub += [["full"]] + [sorted(rng.sample(TRAITS, rng.randint(1, 11)), key=TRAITS.index) + ["full"] for _ in range(60)]
        return allsub
    rng = rng_for(seed, PROP, "subsets")
    subs = [[]] + [[t] for t in TRAITS] + [[x for x in TRAITS if x != t] for t in TRAITS]
    for a, b in [("Clone", "Copy"), ("PartialEq", "Eq"), ("PartialOrd", "Ord"), ("Deref", "DerefMut"), ("PartialEq", "PartialOrd")]:
        subs += [[a, b], [a], [b]]
    for _ in range(40):
        k = rng.randint(1, 11)
        subs.append(sorted(rng.sample(TRAITS, k), key=TRAITS.index))
    # `full` is not a trait feature: it must neither satisfy the "at least one trait" guard nor disturb a build
    subs += [["full"], ["Debug", "full"], ["Default", "full"], ["Into", "Clone", "full"]]
    seen, out = set(), []
    for s in subs:
        t = tuple(sorted(s, key=(TRAITS + ["full"]).index))
        if t not in seen:
            seen.add(t)
            out.append(list(t))
    return out


def corpus(seed, n):
    cases = []
    for k in range(n):
        rng = rng_for(seed, PROP, "case", k)
        if rng.random() < 0.1:
            td = U.random_union(rng)
        else:
            ts = G.random_trait_set(rng, k=rng.randint(1, 4)) if rng.random() < 0.7 else [rng.choice(G.ALL_TRAITS)]
            ts = G.normalise_traits(ts)
            td = G.random_type(rng, ts, G.Opts(p_attr=0.6, max_fields=3, max_variants=3))
        text = S.render(td, rng_for(seed, PROP, "spell", k), extras=False).replace("::educe::Educe", "Educe")
        cases.append(("c%d" % k, td, text))
    # every trait alone on a generic struct, enum and union (tokens only: nothing is compiled here)
    class Hand:
        def __init__(self, traits):
            self.traits = traits
    shapes = {"struct": "struct S<T, const N: usize> { #[educe(Deref, DerefMut, Default)] a: T, b: [u8; N] }",
              "enum": "enum E<T> { #[educe(Default)] V(#[educe(Deref, DerefMut)] T), W { #[educe(Deref, DerefMut)] x: T, y: u8 } }",
              "union": "union U<T> { #[educe(Default)] a: T, b: u8 }"}
    hk = 0
    for shape, body in shapes.items():
        for t in G.ALL_TRAITS:
            if shape == "union" and t in ("PartialOrd", "Ord", "Deref", "DerefMut", "Into"):
                continue
            spelled = {"Into": "Into(u8)"}.get(t, t)
            if shape == "union" and t in ("Debug", "PartialEq", "Hash"):
                spelled = "%s(unsafe)" % t
            b = body
            for m in ("Deref", "DerefMut", "Default"):
                if m != t:
                    b = b.replace("%s, " % m, "").replace(", %s" % m, "").replace("#[educe(%s)] " % m, "")
            b = b.replace("#[educe()] ", "")
            if t == "Into":
                b = b.replace("a: T", "#[educe(Into(u8))] a: T").replace("V(T)", "V(#[educe(Into(u8))] T)").replace("x: T", "#[educe(Into(u8))] x: T")
            cases.append(("h%d" % hk, Hand([t]), "#[derive(Educe)]\n#[educe(%s)]\n%s\n" % (spelled, b)))
            hk += 1
    # field-less enums with explicit discriminants out of declaration order, every trait alone; custom methods given as
    # strings whose path names the helper names of the impl (what a feature gate inside a shared helper would change)
    for t in G.ALL_TRAITS:
        if t in ("Deref", "DerefMut", "Into"):
            continue
        cases.append(("e%s" % t, Hand([t]), "#[derive(Educe)]\n#[educe(%s)]\nenum E { #[educe(Default)] High = 30, Low = 10, Minus = -5, Next }\n".replace(
            "#[educe(Default)] ", "#[educe(Default)] " if t == "Default" else "") % t))
    for i, (t, attr) in enumerate([("Hash", "Hash(method = \"hash_tagged::<H>\")"), ("Hash", "Hash(method(\"HH::h::<H>\"))"), ("Hash", "Hash(method(hash_tagged::<H>))"),
                                   ("Debug", "Debug(method = \"Educe__DebugField::f\")"), ("Debug", "Debug(method(\"x::<Educe__RawString>\"))")]):
        cases.append(("m%d" % i, Hand([t]), "#[derive(Educe)]\n#[educe(%s)]\nstruct S { #[educe(%s)] a: u8, b: u8 }\n" % (t if i != 4 else "Debug(name = false)", attr)))
    # field types in parentheses (what `macro_rules!` splices): shared helpers look through them (unsized tails under Debug, literal
    # defaults in their natural type, the referent of Deref) whatever features are on
    pk = 0
    for t in G.ALL_TRAITS:
        sp = {"Into": "Into(u64)"}.get(t, t)
        d1, d2, d3 = ("#[educe(Default = 5_000_000_000)] ", "#[educe(Default = \"x\")] ", "#[educe(Default = 1.5)] ") if t == "Default" else ("", "", "")
        mk = {"Deref": "#[educe(Deref)] ", "DerefMut": "#[educe(DerefMut)] ", "Into": "#[educe(Into(u64))] "}.get(t, "")
        bodies = ["struct S<T> { %sa: (u64), %ss: (&'static str), %sf: ((f64)), %sr: (T) }" % (d1 if t != "Into" else mk, d2, d3, mk if t != "Into" else ""),
                  "enum E<T> { %sV(%s(i64), %s(T)), W { x: ((T)) } }" % ("#[educe(Default)] " if t == "Default" else "", "#[educe(Default = 7)] " if t == "Default" else "", mk if t in ("Deref", "DerefMut") else "")]
        if t in ("Debug", "PartialEq", "Eq", "PartialOrd", "Ord", "Hash"):
            bodies += ["struct S { a: u8, b: ([u8]) }", "struct S(u8, (str));", "struct S<T: ?Sized> { a: (u8), b: (T) }",
                       "struct S { a: u8, b: (dyn ::core::fmt::Debug + Send) }"]
        if t in ("Deref", "DerefMut"):
            bodies = [b for b in bodies if not b.startswith("enum")] + ["struct S<'a, T>((&'a mut (T)));", "struct S<'a>(u8, %s((&'a mut [u8])));" % mk]
        if t == "Into":
            bodies = bodies[:1]
        for b in bodies:
            cases.append(("p%d" % pk, Hand([t]), "#[derive(Educe)]\n#[educe(%s)]\n%s\n" % (sp, b)))
            pk += 1
    # one trait educed alone, a field attribute under the name of every OTHER trait: the all-features build refuses it
    # ("the trait is not used"), a build in which that other trait is disabled has to refuse it as well
    fattrs = {"Debug": ["Debug(ignore)", "Debug = false", "Debug(name = x)"], "Clone": ["Clone(method(f))"], "Copy": ["Copy"],
              "PartialEq": ["PartialEq(ignore)", "PartialEq = false"], "Eq": ["Eq(ignore)", "Eq = false"],
              "PartialOrd": ["PartialOrd(ignore)", "PartialOrd(rank = 0)", "PartialOrd = false", "PartialOrd(method(f))"],
              "Ord": ["Ord(ignore)", "Ord(rank = 0)", "Ord = false", "Ord(method(f))"], "Hash": ["Hash(ignore)", "Hash = false"],
              "Default": ["Default = 1", "Default"], "Deref": ["Deref"], "DerefMut": ["DerefMut"], "Into": ["Into(u8)"]}
    fk = 0
    for t in G.ALL_TRAITS:
        for u in G.ALL_TRAITS:
            if u == t:
                continue
            for a in fattrs[u]:
                for body in ("struct S { #[educe(%s)] a: u8 }", "enum E { V(#[educe(%s)] u8) }", "enum E { #[educe(%s)] V { a: u8 } }"):
                    cases.append(("f%d" % fk, Hand([t]), "#[derive(Educe)]\n#[educe(%s)]\n%s\n" % ({"Into": "Into(u8)"}.get(t, t), body % a)))
                    fk += 1
    # requests that must be refused (C13's generator): a subset build has to refuse them as well
    from . import c13
    for k in range(n // 3):
        g = c13.gen_case(seed, k)
        if g is not None and g[1] is not None:
            cases.append(("r%d" % k, g[1], g[2].replace("::educe::Educe", "Educe")))
    return cases


PROBE_TYPES = """#![allow(dead_code)]
// syntax that syn only parses with its `full` feature, OUTSIDE any educe attribute: what the derive makes of it must not
// depend on which trait features are enabled (a feature that switches on a feature of a dependency changes it for all)
#[derive(::educe::Educe)]
#[educe(%s)]
pub struct A { pub a: [u8; if true { 3 } else { 2 }] }
fn main() {}
"""


def cargo_level(chk, tier):
    """feature sets selected the way a user selects them (Cargo.toml of a dependent crate, resolved by cargo): the verdict
    on an input whose TYPE needs syn's complete expression grammar is the same for every set"""
    sets = [("Debug",), ("Debug", "Default"), ("Clone",), ("Clone", "Default", "Hash"), None]
    if tier == "thorough":
        sets += [(t,) for t in TRAITS if t not in ("Debug", "Clone", "Copy", "Eq", "DerefMut")] + [tuple(t for t in TRAITS if t != "Default")]
    root = os.path.join(WORK, "d1", "c18cargo")
    verdicts = {}

    def one(ix_fs):
        ix, fs = ix_fs
        d = os.path.join(root, "p%d" % ix)
        os.makedirs(os.path.join(d, "src"), exist_ok=True)
        feat = 'default-features = false, features = [%s]' % ", ".join('"%s"' % f for f in fs) if fs is not None else 'default-features = true'
        open(os.path.join(d, "Cargo.toml"), "w").write(
            '[package]\nname = "p%d"\nversion = "0.0.0"\nedition = "2021"\n[dependencies]\neduce = { path = "%s", %s }\n[workspace]\n' % (ix, REPO, feat))
        tr = "Debug" if fs is None or "Debug" in fs else fs[0]
        open(os.path.join(d, "src", "main.rs"), "w").write(PROBE_TYPES % tr)
        lock = os.path.join(REPO, "Cargo.lock")
        if os.path.exists(lock):
            shutil.copy(lock, os.path.join(d, "Cargo.lock"))
        rc, out, err, wall = run(["cargo", "check", "--offline", "--message-format=short"], cwd=d,
                                 env=base_env({"CARGO_TARGET_DIR": os.path.join(WORK, "tgt", "c18cargo")}), timeout=900)
        if rc == 0:
            return fs, "accepted", ""
        if "unsupported expression" in err or "error: " in err and "could not compile `educe`" not in err and "failed to" not in err.split("error: ")[1][:40]:
            return fs, "refused", err[-600:]
        return fs, None, err[-600:]
    # (serial: the configurations share one target directory)
    for ix, fs in enumerate(sets):
        fs, v, err = one((ix, fs))
        if v is None:
            chk.inconc("cargo-level-build-failed")
            log("C18: cargo-level probe for %s: %s" % (fs, err))
            continue
        verdicts[fs] = (v, err)
    kinds = {v for v, _ in verdicts.values()}
    chk.evaluations += len(verdicts)
    if len(kinds) > 1:
        acc = [("default" if k is None else "+".join(k)) for k, (v, _) in verdicts.items() if v == "accepted"]
        ref = [("default" if k is None else "+".join(k)) for k, (v, _) in verdicts.items() if v == "refused"]
        chk.violation("feature-coupling-through-a-dependency", "a type whose array length needs syn's complete expression grammar is accepted with "
                      "features %s and refused with %s: a trait feature changes what the OTHER traits can parse\n%s" % (acc, ref, PROBE_TYPES % "Debug"),
                      {"probe.rs": PROBE_TYPES % "Debug"})
    elif verdicts:
        chk.held("cargo-level", True, len(verdicts))
        chk.count("cargo-level/%s" % kinds.pop())
    chk.extra["cargo_level_feature_sets"] = len(verdicts)


def main(tier, seed, scale=1.0):
    chk = Check(PROP, tier, seed)
    subs = subsets_for(tier, seed)
    chk.rule = ("feature subsets of the twelve trait features (%s); build axis: the real proc-macro crate type-checked "
                "with -D warnings per subset; behaviour axis: educe as rlib + hook per subset driving a corpus of random "
                "requests in-process, compared with the all-features expansions; non-trivial = non-empty proper subset; "
                "distinct by the feature set" % ("all 4096" if tier == "thorough" else "singletons, co-singletons, coupled "
                                                 "pairs with and without their partner, 40 seeded subsets, the empty set"))
    chk.assumptions = ["the rustc command line is the one `cargo build -v` prints for the educe unit; only --cfg feature=.. "
                       "flags and the output directory are substituted"]
    tgt = os.path.join(WORK, "tgt", "featmx")
    env = base_env({"CARGO_TARGET_DIR": tgt})
    rc, lines, err = capture_cmd(REPO, env, "educe", manifest=os.path.join(REPO, "Cargo.toml"))
    line = next((l for l in lines if "--crate-name educe " in l), None)
    if rc != 0 or line is None:
        raise Inconclusive("cannot capture the rustc command for educe: %s" % err[-2000:])
    argv = parse_running(line)
    outroot = os.path.join(WORK, "featmx-out")
    shutil.rmtree(outroot, ignore_errors=True)
    os.makedirs(outroot)

    def build_one(ix_feats):
        ix, feats = ix_feats
        od = os.path.join(outroot, "m%d" % ix)
        os.makedirs(od, exist_ok=True)
        a = with_features(argv, feats, ["-D", "warnings", "--error-format=json"])
        a = set_arg(a, "--emit", "metadata")
        a = set_arg(a, "--out-dir", od)
        rc, out, err, wall = run(a, cwd=REPO, env=env, timeout=300)
        shutil.rmtree(od, ignore_errors=True)
        diags = []
        for l in err.splitlines():
            if l.startswith("{"):
                try:
                    d = json.loads(l)
                except ValueError:
                    continue
                if d.get("level") in ("error", "warning") and not d.get("message", "").startswith("aborting due"):
                    diags.append(d)
        return feats, rc, diags, err

    with cf.ThreadPoolExecutor(max_workers=NCPU) as ex:
        results = list(ex.map(build_one, enumerate(subs)))
    built_ok = []
    for feats, rc, diags, err in results:
        chk.evaluations += 1
        key = "+".join(feats) or "(none)"
        if not [f for f in feats if f != "full"]:
            msgs = [d["message"] for d in diags if d["level"] == "error"]
            if rc == 0 or not any(EMPTY_MSG in m for m in msgs):
                chk.violation("empty-set", "with no trait feature the crate must refuse to build with its explicit message; "
                              "rc=%s messages=%s" % (rc, msgs[:3]), {"stderr.txt": err[-4000:]})
            else:
                chk.count("empty-set-refused")
            continue
        if rc != 0 or diags:
            d = diags[0] if diags else {"message": err[-300:], "level": "error"}
            code = (d.get("code") or {}).get("code")
            chk.violation("build|%s|%s" % (d.get("level"), code or re.sub(r"`[^`]*`", "`_`", d.get("message", ""))[:50]),
                          "feature subset [%s] does not build cleanly: %s: %s\n%s" %
                          (key, d.get("level"), d.get("message"), (d.get("rendered") or "")[:1500]), {"features.txt": key})
            continue
        if "full" not in feats:
            built_ok.append(feats)
        chk.held("build:" + key, len(feats) < 12, 0)
        chk.count("build-ok/size=%d" % len(feats))
    chk.extra["exhaustive"] = tier == "thorough"
    chk.extra["subsets_built"] = len(results)
    cargo_level(chk, tier)

    # behaviour axis
    behave_subs = [s for s in built_ok if 0 < len(s) < 12]
    if tier == "thorough":
        rng = rng_for(seed, PROP, "behave")
        small = [s for s in behave_subs if len(s) <= 2 or len(s) >= 10]
        rest = [s for s in behave_subs if 2 < len(s) < 10]
        rng.shuffle(rest)
        behave_subs = small + rest[:int(400 * scale)]
    else:
        behave_subs = behave_subs[:int(24 * scale)] if scale < 1 else behave_subs
    cases = corpus(seed, int((240 if tier == "quick" else 400) * scale))
    full = B.run_inproc([(cid, text) for cid, td, text in cases], items=False)
    # capture the two rustc command lines of the in-process build (lib with the hook, runner)
    d = B.setup_inproc()
    itgt = os.path.join(WORK, "tgt", "inproc-mx")
    ienv = base_env({"RUSTFLAGS": "--cfg %s" % GUARD, "CARGO_TARGET_DIR": itgt})
    rc, lines, err = capture_cmd(d, ienv, "educe_inproc")
    lib = next((l for l in lines if "--crate-name educe " in l), None)
    runner = next((l for l in lines if "--crate-name runner " in l), None)
    if rc != 0 or lib is None or runner is None:
        raise Inconclusive("cannot capture the in-process build commands: %s" % err[-2000:])
    lib_argv, run_argv = parse_running(lib), parse_running(runner)

    def build_runner(ix_feats):
        ix, feats = ix_feats
        od = os.path.join(outroot, "r%d" % ix)
        os.makedirs(od, exist_ok=True)
        a = with_features(lib_argv, feats, ["--cap-lints", "allow"])
        a = set_arg(a, "--out-dir", od)
        a = set_arg(a, "--emit", "link")
        # drop `-C extra-filename=..` (flag + value)
        b, i = [], 0
        while i < len(a):
            if a[i] == "-C" and i + 1 < len(a) and a[i + 1].startswith("extra-filename="):
                i += 2
                continue
            b.append(a[i])
            i += 1
        rc, out, err, wall = run(b, cwd=d, env=ienv, timeout=600)
        if rc != 0:
            return feats, None, "lib: " + err[-1500:]
        rlib = os.path.join(od, "libeduce.rlib")
        r = with_features(run_argv, feats, ["--cap-lints", "allow"])
        r = set_arg(r, "--out-dir", od)
        r2, i = [], 0
        while i < len(r):
            if r[i] == "--extern" and i + 1 < len(r) and r[i + 1].startswith("educe="):
                r2 += ["--extern", "educe=" + rlib]
                i += 2
                continue
            if r[i] == "-C" and i + 1 < len(r) and r[i + 1].startswith("extra-filename="):
                i += 2
                continue
            r2.append(r[i])
            i += 1
        rc, out, err, wall = run(r2, cwd=d, env=ienv, timeout=600)
        exe = os.path.join(od, "runner")
        if rc != 0 or not os.path.exists(exe):
            return feats, None, "runner: " + err[-1500:]
        return feats, exe, ""

    with cf.ThreadPoolExecutor(max_workers=NCPU) as ex:
        runners = list(ex.map(build_runner, enumerate(behave_subs)))
    os.makedirs(os.path.join(WORK, "tmp"), exist_ok=True)

    def drive(fe):
        feats, exe, why = fe
        if exe is None:
            return feats, None, why
        return feats, B._run_chunk(exe, [(cid, text) for cid, td, text in cases], 1, False, 600), ""

    with cf.ThreadPoolExecutor(max_workers=NCPU) as ex:
        driven = list(ex.map(drive, runners))
    for feats, res, why in driven:
        key = "+".join(feats)
        if res is None:
            chk.inconc("subset-runner-build-failed")
            log("C18: runner for [%s] not built: %s" % (key, why))
            continue
        fs = set(feats)
        bad = False
        n_same = n_ref = 0
        for cid, td, text in cases:
            r, f = res.get(cid), full.get(cid)
            if r is None or f is None or r.get("st") in ("harness", "crash", "timeout") or f.get("st") not in ("ok", "err"):
                continue
            chk.evaluations += 1
            mentioned = set(td.traits)
            if f.get("st") == "err":
                # refused by the all-features build: refused here too (for this reason or because a trait is disabled)
                if r.get("st") != "err":
                    chk.violation("refusal-lost", "with features [%s] a request the all-features build refuses (%s) is accepted\n%s"
                                  % (key, f.get("msg", "")[:200], text), {"input.rs": text, "features.txt": key})
                    bad = True
                    break
                n_ref += 1
                continue
            if mentioned <= fs:
                if r.get("st") != "ok" or r.get("out") != f.get("out"):
                    chk.violation("behaviour|%s" % "+".join(sorted(mentioned & {"PartialOrd", "Ord", "PartialEq", "Eq", "Clone", "Copy"})
                                                            or sorted(mentioned)[:1]),
                                  "with features [%s] the expansion differs from the all-features build (%s)\ninput:\n%s\nsubset: %s\nfull:   %s"
                                  % (key, r.get("st"), text, (r.get("out") or r.get("msg") or "")[:1500], f.get("out", "")[:1500]),
                                  {"input.rs": text, "features.txt": key})
                    bad = True
                    break
                n_same += 1
            else:
                if r.get("st") != "err" or "unsupported trait" not in r.get("msg", ""):
                    chk.violation("disabled-trait-accepted", "with features [%s] a request naming the disabled trait(s) %s is not "
                                  "refused as unsupported (%s: %s)\n%s" % (key, sorted(mentioned - fs), r.get("st"), r.get("msg", "")[:200], text),
                                  {"input.rs": text, "features.txt": key})
                    bad = True
                    break
                n_ref += 1
        if not bad:
            chk.held("behave:" + key, True, 0)
            chk.count("behave-ok/size=%d" % len(feats))
            chk.sample({"features": feats, "inputs_equal_to_full_build": n_same, "inputs_refused_as_unsupported": n_ref}, limit=5)
    shutil.rmtree(outroot, ignore_errors=True)
    return chk.finish()
