"""C02 — PartialEq is exactly field-wise equality over the compared fields.
Monitor: ==/!= of the educed impl on all ordered pairs of a value set of each generated type, run
through the real macro; oracle = python reference model over abstract field values; laws checked
on the recorded pair table; custom-method events must show (left operand, right operand)."""
import json

from .. import behave as BH
from .. import gen as G
from .. import shapes as S
from .. import twin as TW
from ..common import Check, digest, log, rng_for

PROP = "C02"
RT = S.RT


def gen_case(seed, k, cap):
    rng = rng_for(seed, PROP, "case", k)
    ts = ["PartialEq"]
    if rng.random() < 0.35:
        ts.append("Eq")
    extra = rng.sample(["Debug", "Clone", "Hash", "PartialOrd", "Default"], rng.randint(0, 2))
    if "Eq" in ts and "PartialOrd" in extra and rng.random() < 0.5:
        extra.append("Ord")
    ts = ts + extra
    rng.shuffle(ts)
    td = G.random_type(rng, ts, G.Opts(p_attr=0.8, max_fields=4, max_variants=4, bounds=True, p_partial=0.7, p_repr=0.3, all_method=rng.random() < 0.1, p_packed=0.5))
    text = S.render(td, rng_for(seed, PROP, "spell", k), extras=False)
    vals = S.values(td, cap, rng)
    drive = ("        %sdrive_eq(\"c%d\", %d, &mk);\n        %sdrive_eq_self(\"c%d\", %d, &mk);"
             % (S.RT, k, len(vals), S.RT, k, len(vals)))
    return BH.Case("c%d" % k, td, text, vals, drive=drive)


def expected_eq(td, va, vb):
    (ia, fa), (ib, fb) = va, vb
    if ia != ib:
        return False
    garg = td.notes["garg"]
    for f, a, b in zip(td.variants[ia].fields, fa, fb):
        s = f.sem.get("PartialEq", {})
        if s.get("ignore"):
            continue
        if s.get("method"):
            ok = BH.method_eq(s["method"], a, b)
        else:
            ok = BH.builtin_eq(f.kind, garg, a, b)
        if not ok:
            return False
    return True


def lawful_value(td, v):
    garg = td.notes["garg"]
    i, fs = v
    for f, a in zip(td.variants[i].fields, fs):
        s = f.sem.get("PartialEq", {})
        if s.get("ignore"):
            continue
        if s.get("method", "").endswith("eq_le"):
            return False
        if not s.get("method") and BH.is_nan(f.kind, garg, a):
            return False
    return True


def judge(chk, c, obs, dropped):
    td = c.td
    if c.cid in dropped:
        chk.inconc("does-not-compile (see C01)")
        log("C02: case dropped: %s\n%s" % (dropped[c.cid][0]["message"], c.text))
        return
    o = obs.get(c.cid)
    if o is None or not o.began:
        chk.inconc("not-run")
        return
    files = {"case.rs": c.module(), "descriptor.json": json.dumps(S.describe(td), indent=1, default=str),
             "values.json": json.dumps(c.vals)}
    if o.panic is not None or not o.ended:
        chk.violation("panic|" + (o.panic or "abort")[:60], "== panicked/aborted: %s\n%s" % (o.panic, c.text), files)
        return
    table = {}
    n = len(c.vals)
    mev = 0
    for op, i, j, res, ev in o.recs:
        if op == "eqself":
            want = expected_eq(td, c.vals[i], c.vals[i])
            if (res[0][0] == "1") != want or res[0][1] == res[0][0]:
                chk.violation("eq-self|%s" % td.kind, "a value compared with itself (same object) gives ==:%s !=:%s, oracle says == is %s\n"
                              "a = %s\n%s" % (res[0][0], res[0][1], want, c.vals[i], c.text), files)
                return
            continue
        table[(op, i, j)] = res[0] == "1"
        ok, k = BH.method_events_ok(ev)
        mev += k
        if not ok:
            chk.violation("method-args|%s" % td.kind, "custom method did not receive (left, right): %s\nvalues %s %s\n%s"
                          % (ev, c.vals[i], c.vals[j], c.text), files)
            return
    if len(table) != 2 * n * n:
        chk.inconc("incomplete-output")
        return
    for i in range(n):
        for j in range(n):
            want = expected_eq(td, c.vals[i], c.vals[j])
            got = table[("eq", i, j)]
            if got != want:
                chk.violation("eq-result|%s" % td.kind, "a == b is %s, oracle says %s\na = %s\nb = %s\n%s" %
                              (got, want, c.vals[i], c.vals[j], c.text), files)
                return
            if table[("ne", i, j)] == got:
                chk.violation("ne-not-negation|%s" % td.kind, "a != b is not the negation of a == b\na = %s\nb = %s\n%s"
                              % (c.vals[i], c.vals[j], c.text), files)
                return
    # laws over the observed table, restricted to lawful values
    law = [i for i in range(n) if lawful_value(td, c.vals[i])]
    for i in law:
        if not table[("eq", i, i)]:
            chk.violation("law-reflexive", "a == a is false\na = %s\n%s" % (c.vals[i], c.text), files)
            return
        for j in law:
            if table[("eq", i, j)] != table[("eq", j, i)]:
                chk.violation("law-symmetric", "a == b differs from b == a\n%s %s\n%s" % (c.vals[i], c.vals[j], c.text), files)
                return
            if table[("eq", i, j)]:
                for k in law:
                    if table[("eq", j, k)] and not table[("eq", i, k)]:
                        chk.violation("law-transitive", "a == b, b == c, a != c\n%s" % c.text, files)
                        return
    attrs = sum(1 for _, f in td.all_fields() if f.sem.get("PartialEq"))
    chk.held(digest(c.text), attrs >= 1 or len(td.variants) >= 2, 2 * n * n)
    chk.count("%s/attrs=%d" % (td.kind, min(attrs, 3)))
    chk.extra["method_events"] = chk.extra.get("method_events", 0) + mev
    if attrs:
        chk.sample({"case": c.cid, "source": c.text, "values": len(c.vals),
                    "history_excerpt": ["%s %s %s -> %s [%s]" % (op, c.vals[i], c.vals[j], res[0], ev)
                                        for op, i, j, res, ev in o.recs[:4]]}, limit=3)


UNSIZED_TEXT = (
    "pub fn first_eq<T: ?Sized + ::core::fmt::Debug>(a: &T, b: &T) -> bool { format!(\"{:?}\", a).as_bytes().get(1) == format!(\"{:?}\", b).as_bytes().get(1) }\n"
    "#[derive(::educe::Educe)]\n#[educe(PartialEq)]\npub struct Ig<T: ?Sized> {\n    pub id: u8,\n    #[educe(PartialEq(ignore))]\n    pub tail: T,\n}\n"
    "#[derive(::educe::Educe)]\n#[educe(PartialEq)]\npub struct Me<T: ?Sized + ::core::fmt::Debug>(pub u8, #[educe(PartialEq(method(first_eq)))] pub T);\n"
    "#[derive(::educe::Educe)]\n#[educe(PartialEq, Eq)]\npub struct Bi<T: ?Sized> {\n    pub id: u8,\n    pub tail: T,\n}\n")
UNSIZED_VALS = [(1, [1, 2, 3]), (1, [1, 2]), (1, [9, 2, 3]), (2, [1, 2, 3]), (1, []), (1, [1, 2, 3])]


def unsized_case():
    """values of one unsized type whose tails have different lengths (and so different sizes): == is still decided by the
    compared fields alone -- ignored tail, tail compared by a method, tail compared by its own =="""
    from .. import harness as H
    vals = ["(%d, &[%s][..])" % (i, ", ".join("%du8" % x for x in t)) for i, t in UNSIZED_VALS]
    mk = ("pub fn all() -> Vec<(u8, &'static [u8])> { vec![%s] }\n" % ", ".join(vals) +
          "pub fn ig(v: &(u8, &'static [u8])) -> Box<Ig<[u8]>> { let b: Box<Ig<[u8; 0]>> = Box::new(Ig { id: v.0, tail: [] }); let _ = b; "
          "match v.1.len() { 0 => Box::new(Ig { id: v.0, tail: [0u8; 0] }) as Box<Ig<[u8]>>, 2 => Box::new(Ig { id: v.0, tail: [v.1[0], v.1[1]] }) as Box<Ig<[u8]>>, "
          "_ => Box::new(Ig { id: v.0, tail: [v.1[0], v.1[1], v.1[2]] }) as Box<Ig<[u8]>> } }\n"
          "pub fn me(v: &(u8, &'static [u8])) -> Box<Me<[u8]>> { match v.1.len() { 0 => Box::new(Me(v.0, [0u8; 0])) as Box<Me<[u8]>>, 2 => Box::new(Me(v.0, [v.1[0], v.1[1]])) as Box<Me<[u8]>>, "
          "_ => Box::new(Me(v.0, [v.1[0], v.1[1], v.1[2]])) as Box<Me<[u8]>> } }\n"
          "pub fn bi(v: &(u8, &'static [u8])) -> Box<Bi<[u8]>> { match v.1.len() { 0 => Box::new(Bi { id: v.0, tail: [0u8; 0] }) as Box<Bi<[u8]>>, 2 => Box::new(Bi { id: v.0, tail: [v.1[0], v.1[1]] }) as Box<Bi<[u8]>>, "
          "_ => Box::new(Bi { id: v.0, tail: [v.1[0], v.1[1], v.1[2]] }) as Box<Bi<[u8]>> } }\n")
    drive = ("        let vs = all(); let mut s = [String::new(), String::new(), String::new()];\n"
             "        for a in vs.iter() { for b in vs.iter() {\n"
             "            s[0].push(if *ig(a) == *ig(b) { '1' } else { '0' }); s[1].push(if *me(a) == *me(b) { '1' } else { '0' }); s[2].push(if *bi(a) == *bi(b) { '1' } else { '0' });\n"
             "        } }\n        %sbegin(); %sobs(\"unsz\", \"unsized\", 0, -1, &format!(\"{}\\t{}\\t{}\", s[0], s[1], s[2]));" % (RT, RT))
    c = BH.Case("unsz", None, UNSIZED_TEXT, [], glue=mk, drive=drive, info={})
    c.module = lambda c=c: H.module(c.cid, c.text + c.glue + "pub fn run() {\n    %sguarded(\"%s\", || {\n%s\n    });\n}\n" % (RT, c.cid, c.drive))
    return c


def link_case():
    """fields that are references to the derived type itself: compared by the referent's own ==, never by address"""
    from .. import harness as H
    text = ("#[derive(::educe::Educe)]\n#[educe(PartialEq)]\npub enum List<'a> {\n    Nil,\n    Cons(f64, &'a List<'a>),\n    Named { head: f64, tail: &'a Self },\n}\n"
            "#[derive(::educe::Educe)]\n#[educe(PartialEq)]\npub struct Node<'a> {\n    pub v: f64,\n    pub next: ::core::option::Option<&'a Node<'a>>,\n    pub same: &'a f64,\n}\n")
    drive = ("        let nil = List::Nil; let nan_tail = List::Cons(f64::NAN, &nil); let ok_tail = List::Cons(1.0, &nil);\n"
             "        let (a, b) = (List::Cons(2.0, &nan_tail), List::Cons(2.0, &nan_tail));\n"
             "        let (n1, n2) = (List::Named { head: 2.0, tail: &nan_tail }, List::Named { head: 2.0, tail: &nan_tail });\n"
             "        let nan = f64::NAN; let one = 1.0f64; let base = Node { v: 0.0, next: ::core::option::Option::None, same: &nan };\n"
             "        let (s1, s2) = (Node { v: 1.0, next: ::core::option::Option::Some(&base), same: &one }, Node { v: 1.0, next: ::core::option::Option::Some(&base), same: &one });\n"
             "        let (c1, c2) = (List::Cons(2.0, &ok_tail), List::Cons(2.0, &ok_tail));\n"
             "        let good = Node { v: 0.0, next: ::core::option::Option::None, same: &one };\n"
             "        let (g1, g2) = (Node { v: 1.0, next: ::core::option::Option::Some(&good), same: &one }, Node { v: 1.0, next: ::core::option::Option::Some(&good), same: &one });\n"
             "        %sbegin(); %sobs(\"link\", \"link\", 0, -1, &format!(\"{} {} {} {} {} {}\", (a == b) as u8, (a == a) as u8, (n1 == n2) as u8, (s1 == s2) as u8, (c1 == c2) as u8, (g1 == g2) as u8));"
             % (RT, RT))
    c = BH.Case("link", None, text, [], drive=drive, info={})
    c.module = lambda c=c: H.module(c.cid, "#![allow(clippy::eq_op)]\n" + c.text + "pub fn run() {\n    %sguarded(\"%s\", || {\n%s\n    });\n}\n" % (RT, c.cid, c.drive))
    return c


def judge_unsized(chk, c, obs, dropped):
    if c.cid in dropped:
        d = dropped[c.cid][0]
        chk.violation("unsized-tail-does-not-compile", "PartialEq on a struct with an unsized last field does not compile: %s\n%s"
                      % (d.get("rendered") or d["message"], c.text), {"case.rs": c.module()})
        return
    o = obs.get(c.cid)
    if o is None or not o.recs:
        chk.inconc("unsized-not-run")
        return
    got = o.recs[0][3]

    def first(t):
        return t[0] if t else None
    want = ["".join("1" if a[0] == b[0] else "0" for a in UNSIZED_VALS for b in UNSIZED_VALS),
            "".join("1" if a[0] == b[0] and first(a[1]) == first(b[1]) else "0" for a in UNSIZED_VALS for b in UNSIZED_VALS),
            "".join("1" if a == b else "0" for a in UNSIZED_VALS for b in UNSIZED_VALS)]
    for name, g, w in zip(("ignored tail", "tail compared by a method", "tail compared by its own =="), got, want):
        chk.evaluations += len(w)
        if g != w:
            chk.violation("unsized-tail|%s" % name, "== on values of an unsized struct (%s) is not decided by the compared fields alone\n"
                          "observed %s\nexpected %s\nvalues %s\n%s" % (name, g, w, UNSIZED_VALS, c.text), {"case.rs": c.module()})
            return
    chk.held("unsized-tails", True, 3)
    chk.count("unsized-tail")


def main(tier, seed, scale=1.0):
    chk = Check(PROP, tier, seed)
    n = int((960 if tier == "quick" else 30000) * scale)
    cap = 20 if tier == "quick" else 36
    chk.rule = ("random struct/enum definitions with PartialEq (and Eq) educed, ignore/method attributes in random "
                "spellings carried by PartialEq(..) or Eq(..); ==/!= on all ordered pairs of a value set per type "
                "(full product when small, otherwise targeted deviations + seeded fill); non-trivial = at least one "
                "PartialEq attribute or >= 2 variants; distinct by source text")
    chk.assumptions = ["field types and custom methods are the instrumented verif_rt ones; their own == is trusted"]
    batch = 640
    for k0 in range(0, n, batch):
        cases = [gen_case(seed, k, cap) for k in range(k0, min(n, k0 + batch))]
        obs, dropped, crashed, _, _ = BH.execute("c02", cases)
        for b, (rc, err) in crashed.items():
            log("C02: binary %s exited with %s: %s" % (b, rc, err[-500:]))
        for c in cases:
            judge(chk, c, obs, dropped)
    uc = unsized_case()
    lk = link_case()
    obs, dropped, crashed, _, _ = BH.execute("c02u", [uc, lk])
    judge_unsized(chk, uc, obs, dropped)
    o = obs.get("link")
    if "link" in dropped or o is None or not o.recs:
        chk.inconc("self-link-not-run")
    else:
        chk.evaluations += 1
        if o.recs[0][3][0] != "0 0 0 0 1 1":
            chk.violation("self-link", "two links to the SAME node are equal only if that node equals itself (it holds a NaN here)\n"
                          "observed %s, expected 0 0 0 0 1 1 (a == b, a == a, named, struct; controls with a NaN-free node)\n%s" % (o.recs[0][3][0], lk.text),
                          {"case.rs": lk.module()})
        else:
            chk.held("self-link", True, 1)
            chk.count("self-link")
    # differential family: parameter-free requests over std field types against std's derives
    tw = TW.cases(seed, PROP, max(40, n // 4), "eq")
    obs, dropped, crashed, _, _ = BH.execute("c02w", tw)
    for c in tw:
        TW.judge(chk, c, obs, dropped, "==")
    return chk.finish()
