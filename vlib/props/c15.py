"""C15 — each trait's impl depends only on that trait's own attributes.
For a type with traits S ∪ {t} (all carrying attributes of their own on the same fields) and its
reduction to {t} ∪ coupled partners, the impl items for t in the two in-process expansions must be
identical."""
import collections
import copy
import json

from .. import build as B
from .. import gen as G
from .. import model as M
from .. import shapes as S
from ..common import Check, digest, log, rng_for

PROP = "C15"

PARTNERS = {"Clone": ["Copy"], "Copy": ["Clone"], "PartialEq": ["Eq"], "Eq": ["PartialEq"],
            "PartialOrd": ["Ord"], "Ord": ["PartialOrd"], "DerefMut": []}

# which field/variant/type semantic keys belong to a trait
SEM_KEYS = {"Debug": ["Debug"], "Clone": ["Clone"], "Copy": [], "PartialEq": ["PartialEq"], "Eq": ["PartialEq"],
            "PartialOrd": ["PartialOrd", "Ord"], "Ord": ["Ord", "PartialOrd"], "Hash": ["Hash"],
            "Default": ["Default"], "Deref": ["Deref"], "DerefMut": ["DerefMut"], "Into": ["Into", "_into"]}


def trait_items(res, td, t):
    """multiset of (header, body) of the impl items that implement trait t"""
    ts = set(td.traits)
    want = []
    if t == "Into":
        want = None
    out = collections.Counter()
    for it in res.get("items", []):
        tr = M.nows(it.get("trait") or "")
        if t == "Into":
            ok = tr.startswith("::core::convert::Into<")
        elif t == "Default":
            ok = tr == M.nows(M.PATH["Default"]) or it.get("trait") is None
        else:
            ok = tr == M.nows(M.PATH[t])
        if ok:
            out[(it.get("hdr", ""), it.get("body") or "")] += 1
    return out


def reduce_to(td, keep):
    """copy of td that educes only the traits in `keep`, with every other trait's attributes removed"""
    r = copy.copy(td)
    r.traits = [t for t in td.traits if t in keep]
    keys = set()
    for t in r.traits:
        keys.update(SEM_KEYS[t])
    r.tsem = {t: s for t, s in td.tsem.items() if t in keep}
    r.variants = []
    for v in td.variants:
        nv = copy.copy(v)
        nv.sem = {t: s for t, s in v.sem.items() if t in keep}
        nv.fields = []
        for f in v.fields:
            nf = copy.copy(f)
            nf.sem = {k: s for k, s in f.sem.items() if k in keys or k.startswith("_") and k != "_into"}
            if "_into" in f.sem and "Into" in keep:
                nf.sem["_into"] = f.sem["_into"]
            nv.fields.append(nf)
        r.variants.append(nv)
    r.other_derives = []
    return r


def main(tier, seed, scale=1.0):
    chk = Check(PROP, tier, seed)
    n = int((3000 if tier == "quick" else 60000) * scale)
    chk.rule = ("random types educing 3..9 traits, every trait with attributes of its own on the same fields; "
                "for one trait t the impl items for t are compared between the full request and the request "
                "reduced to t plus its documented partners (Copy~Clone, Eq~PartialEq, Ord~PartialOrd); "
                "non-trivial = at least two foreign traits carry field-level attributes; distinct by text")
    batch = 3000
    for k0 in range(0, n, batch):
        feed, cases = [], []
        for k in range(k0, min(n, k0 + batch)):
            rng = rng_for(seed, PROP, "case", k)
            ts = G.normalise_traits(rng.sample(G.ALL_TRAITS, rng.randint(3, 9)))
            rng.shuffle(ts)
            td = G.random_type(rng, ts, G.Opts(p_attr=0.9, rich=rng.random() < 0.3))
            t = rng.choice(td.traits)
            keep = {t} | {p for p in PARTNERS.get(t, []) if p in td.traits}
            red = reduce_to(td, keep)
            # the reduced request may reorder/relayout: independence must not depend on that either
            full = S.render(td, rng_for(seed, PROP, "sp", k), extras=False).replace("::educe::Educe", "Educe")
            part = S.render(red, rng_for(seed, PROP, "sp2", k), extras=False).replace("::educe::Educe", "Educe")
            cases.append((k, td, t, full, part))
            feed.append(("f%d" % k, full))
            feed.append(("p%d" % k, part))
        res = B.run_inproc(feed, items=True)
        for k, td, t, full, part in cases:
            a, b = res.get("f%d" % k), res.get("p%d" % k)
            if a is None or b is None or a.get("st") in ("harness", "crash", "timeout") or \
                    b.get("st") in ("harness", "crash", "timeout"):
                chk.inconc("runner")
                continue
            if a["st"] != "ok":
                chk.inconc("full-not-accepted")
                log("C15: full request refused: %s\n%s" % (a.get("msg"), full))
                continue
            if b["st"] != "ok":
                # the reduced request only removed other traits: refusing it now means t depends on them
                chk.violation("reduced-refused|%s|%s" % (t, b.get("msg", "")[:50]),
                              "request reduced to %s is refused (%s) while the full request is accepted\n--- full:\n%s\n--- reduced:\n%s"
                              % (t, b.get("msg"), full, part), {"full.rs": full, "reduced.rs": part})
                continue
            ia, ib = trait_items(a, td, t), trait_items(b, td, t)
            chk.evaluations += 2
            if ia != ib or not ia:
                chk.violation("depends-on-others|%s" % t,
                              "impl for %s differs when other traits are removed\n--- full:\n%s\n--- reduced:\n%s\n--- only full: %s\n--- only reduced: %s"
                              % (t, full, part, list((ia - ib).elements())[:2], list((ib - ia).elements())[:2]),
                              {"full.rs": full, "reduced.rs": part})
                continue
            foreign = set()
            for _, f in td.all_fields():
                for key in f.sem:
                    if not key.startswith("_") and key not in SEM_KEYS[t]:
                        foreign.add(key)
            chk.held(digest(full + "|" + t), len(foreign) >= 2, 0)
            chk.count(t)
            if len(foreign) >= 2:
                chk.sample({"trait": t, "full": full, "reduced": part, "items_for_trait": sum(ia.values())}, limit=3)
    return chk.finish()
