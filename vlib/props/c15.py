"""C15 — each trait's impl depends only on that trait's own attributes.
For a type with traits S ∪ {t} (all carrying attributes of their own on the same fields) and its
reduction to {t} ∪ coupled partners, the impl items for t in the two in-process expansions must be
identical."""
import collections
import copy
import json

from .. import behave as BH
from .. import build as B
from .. import harness as H
from .. import gen as G
from .. import model as M
from .. import shapes as S
from .. import unions as U
from ..common import Check, digest, log, rng_for

PROP = "C15"

PARTNERS = {"Clone": ["Copy"], "Copy": ["Clone"], "PartialEq": ["Eq"], "Eq": ["PartialEq"],
            "PartialOrd": ["Ord"], "Ord": ["PartialOrd"], "DerefMut": []}

# which field/variant/type semantic keys belong to a trait
SEM_KEYS = {"Debug": ["Debug"], "Clone": ["Clone"], "Copy": [], "PartialEq": ["PartialEq"], "Eq": ["PartialEq"],
            "PartialOrd": ["PartialOrd", "Ord"], "Ord": ["Ord", "PartialOrd"], "Hash": ["Hash"],
            "Default": ["Default"], "Deref": ["Deref"], "DerefMut": ["DerefMut"], "Into": ["Into", "_into"]}


def trait_items(res, td, t):
    """multiset of (header, body) of the impl items that implement trait t"""
    ts = set(td.traits)
    want = []
    if t == "Into":
        want = None
    out = collections.Counter()
    for it in res.get("items", []):
        tr = M.nows(it.get("trait") or "")
        if t == "Into":
            ok = tr.startswith("::core::convert::Into<")
        elif t == "Default":
            ok = tr == M.nows(M.PATH["Default"]) or it.get("trait") is None
        else:
            ok = tr == M.nows(M.PATH[t])
        if ok:
            out[(it.get("hdr", ""), it.get("body") or "")] += 1
    return out


def reduce_to(td, keep):
    """copy of td that educes only the traits in `keep`, with every other trait's attributes removed"""
    r = copy.copy(td)
    r.traits = [t for t in td.traits if t in keep]
    keys = set()
    for t in r.traits:
        keys.update(SEM_KEYS[t])
    r.tsem = {t: s for t, s in td.tsem.items() if t in keep}
    r.variants = []
    for v in td.variants:
        nv = copy.copy(v)
        nv.sem = {t: s for t, s in v.sem.items() if t in keep}
        nv.fields = []
        for f in v.fields:
            nf = copy.copy(f)
            nf.sem = {k: s for k, s in f.sem.items() if k in keys or k.startswith("_") and k != "_into"}
            if "_into" in f.sem and "Into" in keep:
                nf.sem["_into"] = f.sem["_into"]
            nv.fields.append(nf)
        r.variants.append(nv)
    r.other_derives = []
    return r


# ---- behavioural side: the impl of t must also BEHAVE the same whatever the other traits' attributes are (an impl that
# calls a sibling impl at run time has identical tokens in every configuration)
BEHAVE_TRAITS = ["PartialEq", "PartialOrd", "Ord", "Hash", "Debug", "Clone"]
RT = S.RT
TRANSCRIPT = {
    "PartialEq": ("X: ::core::cmp::PartialEq", "for i in 0..n { for j in 0..n { let (a, b) = (mk(i, 0), mk(j, 1)); s.push(if a == b { '1' } else { '0' }); s.push(if a != b { '1' } else { '0' }); } }"),
    "PartialOrd": ("X: ::core::cmp::PartialOrd", "for i in 0..n { for j in 0..n { let (a, b) = (mk(i, 0), mk(j, 1)); s.push_str(&format!(\"{:?},{}{}{}{};\", ::core::cmp::PartialOrd::partial_cmp(&a, &b), (a < b) as u8, (a <= b) as u8, (a > b) as u8, (a >= b) as u8)); } }"),
    "Ord": ("X: ::core::cmp::Ord", "for i in 0..n { for j in 0..n { let (a, b) = (mk(i, 0), mk(j, 1)); s.push_str(&format!(\"{:?};\", ::core::cmp::Ord::cmp(&a, &b))); } }"),
    "Hash": ("X: ::core::hash::Hash", "for i in 0..n { s.push_str(&%srec_hash(&mk(i, 0))); s.push('|'); }" % RT),
    "Debug": ("X: ::core::fmt::Debug", "for i in 0..n { let a = mk(i, 0); s.push_str(&format!(\"{:?}|{:#?}|\", a, a)); }"),
    "Clone": ("X: ::core::clone::Clone + %sFp" % RT, "for i in 0..n { let a = mk(i, 0); let c = ::core::clone::Clone::clone(&a); s.push_str(&%sFp::fp(&c)); let mut d = mk((i + 1) %% n, 1); ::core::clone::Clone::clone_from(&mut d, &a); s.push_str(&%sFp::fp(&d)); s.push('|'); }" % (RT, RT)),
}


def behave_case(seed, k):
    rng = rng_for(seed, PROP, "behave", k)
    t = rng.choice(BEHAVE_TRAITS)
    ts = G.normalise_traits([t] + rng.sample(["Debug", "Clone", "PartialEq", "Eq", "PartialOrd", "Ord", "Hash"], rng.randint(2, 5)))
    rng.shuffle(ts)
    o = G.Opts(p_attr=rng.choice([0.35, 0.6, 0.9]), max_fields=4, max_variants=3, bounds=False, p_partial=0.3, p_packed=0.4)
    td = G.random_type(rng, ts, o)
    if t not in td.traits:
        return None
    # the same definition with every OTHER trait's attributes drawn afresh; t's (and its partners') stay
    td2 = copy.deepcopy(td)
    for v in td2.variants:
        v.sem = {a: b for a, b in v.sem.items() if a.startswith("_")}
        for f in v.fields:
            f.sem = {a: b for a, b in f.sem.items() if a.startswith("_")}
    td2.tsem = {a: b for a, b in td2.tsem.items() if a.startswith("_")}
    G.decorate(rng_for(seed, PROP, "behave2", k), td2, o)
    keys = set(SEM_KEYS[t])
    for p in PARTNERS.get(t, []):
        keys.update(SEM_KEYS[p])
    own = {t} | set(PARTNERS.get(t, []))
    for tt in own:
        if tt in td.tsem:
            td2.tsem[tt] = copy.deepcopy(td.tsem[tt])
        else:
            td2.tsem.pop(tt, None)
    for v, v2 in zip(td.variants, td2.variants):
        for key in keys | own:
            if key in v.sem:
                v2.sem[key] = copy.deepcopy(v.sem[key])
            else:
                v2.sem.pop(key, None)
        for f, f2 in zip(v.fields, v2.fields):
            for key in keys:
                if key in f.sem:
                    f2.sem[key] = copy.deepcopy(f.sem[key])
                else:
                    f2.sem.pop(key, None)
    vals = S.values(td, 10, rng)
    mods = []
    for name, d, sp in (("a", td, "b1"), ("b", td2, "b2")):
        mods.append("pub mod %s {\n%s%s%s%s}\n" % (name, S.render(d, rng_for(seed, PROP, sp, k), extras=False), "".join(d.extra_items),
                                                  S.emit_mk(d, vals), S.emit_fp(d)))
    bound, body = TRANSCRIPT[t]
    glue = ("".join(mods) + "pub fn transcript<X>(mk: &dyn Fn(usize, u8) -> X, n: usize) -> String where %s {\n"
            "    let mut s = String::new();\n    %s\n    s\n}\n" % (bound, body))
    inst = td.inst()
    drive = ("        %sbegin();\n        let ta = transcript::<a::%s>(&a::mk, %d);\n        let tb = transcript::<b::%s>(&b::mk, %d);\n"
             "        let _ = %stake();\n        %sbegin();\n"
             "        %sobs(\"i%d\", \"indep\", %d, -1, &format!(\"{}\\t{}\\t{}\", (ta == tb) as u8, %shex(&ta), %shex(&tb)));"
             % (RT, inst, len(vals), inst, len(vals), RT, RT, RT, k, len(vals), RT, RT))
    c = BH.Case("i%d" % k, td, S.render(td, rng_for(seed, PROP, "b1", k), extras=False), vals, glue=glue, drive=drive,
                info={"trait": t, "other": S.render(td2, rng_for(seed, PROP, "b2", k), extras=False)})
    c.module = lambda c=c: H.module(c.cid, c.glue + "pub fn run() {\n    %sguarded(\"%s\", || {\n%s\n    });\n}\n" % (RT, c.cid, c.drive))
    return c


def judge_behave(chk, c, obs, dropped):
    t = c.info["trait"]
    if c.cid in dropped:
        chk.inconc("does-not-compile (see C01)")
        log("C15: behavioural case dropped: %s\n%s\n--- other configuration:\n%s"
            % (dropped[c.cid][0].get("rendered") or dropped[c.cid][0]["message"], c.text, c.info["other"]))
        return
    o = obs.get(c.cid)
    if o is None or not o.began or not o.recs:
        if o is not None and o.panic is not None:
            chk.violation("panic|" + o.panic[:60], "%s panicked: %s\n%s" % (t, o.panic, c.text), {"case.rs": c.module()})
            return
        chk.inconc("not-run")
        return
    op, n, j, res, ev = o.recs[0]
    chk.evaluations += 1
    if res[0] != "1":
        chk.violation("behaviour-depends-on-others|%s" % t,
                      "the impl of %s behaves differently when only the attributes of OTHER traits change\n--- configuration A:\n%s\n"
                      "--- configuration B:\n%s\ntranscript A: %s\ntranscript B: %s"
                      % (t, c.text, c.info["other"], H.unhex(res[1])[:600], H.unhex(res[2])[:600]), {"case.rs": c.module()})
        return
    chk.held(digest(c.text + "|" + c.info["other"] + "|" + t), True, n)
    chk.count("behave/" + t)
    chk.sample({"trait": t, "configuration_a": c.text, "configuration_b": c.info["other"], "values": n}, limit=3)


ENTRY_TRAITS = {"Debug": "::core::fmt::Debug for", "Clone": "::core::clone::Clone for", "PartialEq": "::core::cmp::PartialEq for",
                "Hash": "::core::hash::Hash for", "Default": "::core::default::Default for"}


def entry_point_pairs(chk, seed):
    """through rustc and the REAL derive entry point (the in-process hook bypasses it): the impl block of t — with the
    attributes in front of it — is the same whether t is educed alone or after other traits"""
    from .. import unpretty as UP
    rng = rng_for(seed, PROP, "entry")
    shapes = ["pub struct S {\n    pub a: u8,\n    pub b: u16,\n}\n", "pub struct S<T>(pub T, pub u8);\n",
              "pub enum S {\n    #[educe(Default)]\n    A(u8),\n    B {\n        x: u16,\n    },\n    C,\n}\n"]
    parts = ["#![allow(dead_code, unused)]\nuse educe::Educe;\n"]
    plan = []
    k = 0
    for t in ENTRY_TRAITS:
        for shape in shapes:
            others = [o for o in rng.sample([x for x in ENTRY_TRAITS if x != t], rng.randint(1, 3))]
            pos = rng.randrange(len(others) + 1)
            lst = others[:pos] + [t] + others[pos:]
            if "Default" not in lst:
                shape_ = shape.replace("    #[educe(Default)]\n", "")
            else:
                shape_ = shape
            alone_shape = shape if t == "Default" else shape.replace("    #[educe(Default)]\n", "")
            parts.append("pub mod alone_%d {\nuse super::*;\n#[derive(Educe)]\n#[educe(%s)]\n%s}\n" % (k, t, alone_shape))
            parts.append("pub mod with_%d {\nuse super::*;\n#[derive(Educe)]\n#[educe(%s)]\n%s}\n" % (k, ", ".join(lst), shape_))
            plan.append((k, t, lst))
            k += 1
    src = "".join(parts)
    mods = UP.modules(UP.expand("c15u", src))
    norm = lambda b: " ".join(b.split())
    for k, t, lst in plan:
        a = [blk for hdr, blk in UP.impl_blocks(mods.get("alone_%d" % k, "")) if ENTRY_TRAITS[t] in hdr]
        w = [blk for hdr, blk in UP.impl_blocks(mods.get("with_%d" % k, "")) if ENTRY_TRAITS[t] in hdr]
        if len(a) != 1 or len(w) != 1:
            chk.inconc("unpretty-output-not-understood")
            continue
        chk.evaluations += 1
        if norm(a[0]) != norm(w[0]):
            chk.violation("entry-point-depends-on-others|%s" % t, "through the real derive entry point the impl block of %s differs between "
                          "`#[educe(%s)]` and `#[educe(%s)]`\n--- alone:\n%s\n--- with others:\n%s" % (t, t, ", ".join(lst), a[0], w[0]),
                          {"crate.rs": src})
            return
        chk.count("entry-point-pairs-equal")
    chk.held("entry:" + digest(src), True, 0)


def main(tier, seed, scale=1.0):
    chk = Check(PROP, tier, seed)
    n = int((3000 if tier == "quick" else 60000) * scale)
    chk.rule = ("random types educing 3..9 traits, every trait with attributes of its own on the same fields; "
                "for one trait t the impl items for t are compared between the full request and the request "
                "reduced to t plus its documented partners (Copy~Clone, Eq~PartialEq, Ord~PartialOrd); "
                "non-trivial = at least two foreign traits carry field-level attributes; distinct by text")
    batch = 3000
    for k0 in range(0, n, batch):
        feed, cases = [], []
        for k in range(k0, min(n, k0 + batch)):
            rng = rng_for(seed, PROP, "case", k)
            ts = G.normalise_traits(rng.sample(G.ALL_TRAITS, rng.randint(3, 9)))
            rng.shuffle(ts)
            td = G.random_type(rng, ts, G.Opts(p_attr=0.9, rich=rng.random() < 0.3, p_packed=0.4))
            if rng.random() < 0.08:
                # unions: each byte-wise impl and the Default impl stand alone as well
                for _ in range(8):
                    td = U.random_union(rng)
                    if len(td.traits) >= 2:
                        break
            t = rng.choice(td.traits)
            keep = {t} | {p for p in PARTNERS.get(t, []) if p in td.traits}
            red = reduce_to(td, keep)
            # the reduced request may reorder/relayout: independence must not depend on that either
            full = S.render(td, rng_for(seed, PROP, "sp", k), extras=False).replace("::educe::Educe", "Educe")
            part = S.render(red, rng_for(seed, PROP, "sp2", k), extras=False).replace("::educe::Educe", "Educe")
            cases.append((k, td, t, full, part))
            feed.append(("f%d" % k, full))
            feed.append(("p%d" % k, part))
        res = B.run_inproc(feed, items=True)
        for k, td, t, full, part in cases:
            a, b = res.get("f%d" % k), res.get("p%d" % k)
            if a is None or b is None or a.get("st") in ("harness", "crash", "timeout") or \
                    b.get("st") in ("harness", "crash", "timeout"):
                chk.inconc("runner")
                continue
            if a["st"] != "ok":
                chk.inconc("full-not-accepted")
                log("C15: full request refused: %s\n%s" % (a.get("msg"), full))
                continue
            if b["st"] != "ok":
                # the reduced request only removed other traits: refusing it now means t depends on them
                chk.violation("reduced-refused|%s|%s" % (t, b.get("msg", "")[:50]),
                              "request reduced to %s is refused (%s) while the full request is accepted\n--- full:\n%s\n--- reduced:\n%s"
                              % (t, b.get("msg"), full, part), {"full.rs": full, "reduced.rs": part})
                continue
            ia, ib = trait_items(a, td, t), trait_items(b, td, t)
            chk.evaluations += 2
            if ia != ib or not ia:
                chk.violation("depends-on-others|%s" % t,
                              "impl for %s differs when other traits are removed\n--- full:\n%s\n--- reduced:\n%s\n--- only full: %s\n--- only reduced: %s"
                              % (t, full, part, list((ia - ib).elements())[:2], list((ib - ia).elements())[:2]),
                              {"full.rs": full, "reduced.rs": part})
                continue
            foreign = set()
            for _, f in td.all_fields():
                for key in f.sem:
                    if not key.startswith("_") and key not in SEM_KEYS[t]:
                        foreign.add(key)
            chk.held(digest(full + "|" + t), len(foreign) >= 2, 0)
            chk.count(t)
            if len(foreign) >= 2:
                chk.sample({"trait": t, "full": full, "reduced": part, "items_for_trait": sum(ia.values())}, limit=3)
    entry_point_pairs(chk, seed)
    nb = int((720 if tier == "quick" else 12000) * scale)
    for k0 in range(0, nb, 480):
        bc = [c for c in (behave_case(seed, k) for k in range(k0, min(nb, k0 + 480))) if c is not None]
        obs, dropped, crashed, _, _ = BH.execute("c15b", bc)
        for c in bc:
            judge_behave(chk, c, obs, dropped)
    return chk.finish()
