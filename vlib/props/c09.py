"""C09 — Deref and DerefMut expose exactly the designated field.
Monitor: address of &*x / &mut *x compared with the address of the designated field's storage (its
referent for reference-typed fields) obtained by a generator-written accessor; fingerprint of the
whole value before and after a write through &mut *x. Native and Miri (aliasing / UB)."""
import json
import re

from .. import behave as BH
from .. import harness as H
from .. import shapes as S
from ..common import Check, digest, log, rng_for

PROP = "C09"
RT = S.RT

T = lambda s, sl, a: "%sT::mk(%s, %d, %d)" % (RT, s, sl, a)
KINDS = {
    "T": S.Kind("T", RT + "T", set(), 3, T),
    "U8": S.Kind("U8", "u8", set(), 3, lambda s, sl, a: "%du8" % a),
    "OptT": S.Kind("OptT", "::core::option::Option<%sT>" % RT, set(), 3,
                   lambda s, sl, a: "::core::option::Option::None" if a == 0 else "::core::option::Option::Some(%s)" % T(s, sl, a - 1)),
    "RefT": S.Kind("RefT", "&'a %sT" % RT, set(), 3, lambda s, sl, a: "%sleak(%s)" % (RT, T(s, sl, a)), needs={"a"}),
    "RefRefT": S.Kind("RefRefT", "&'a &'a %sT" % RT, set(), 3,
                      lambda s, sl, a: "%sleak(%sleak(%s))" % (RT, RT, T(s, sl, a)), needs={"a"}),
    "RefMutT": S.Kind("RefMutT", "&'a mut %sT" % RT, set(), 3, lambda s, sl, a: "%sleak_mut(%s)" % (RT, T(s, sl, a)),
                      needs={"a"}),
}
NAMES = ["a", "b", "c", "d", "e"]


def gen_case(seed, k):
    rng = rng_for(seed, PROP, "case", k)
    kind = rng.choice(["struct", "enum", "enum"])
    mut = rng.random() < 0.6
    td = S.TypeDef(kind, "Ty")
    td.traits = ["Deref"] + (["DerefMut"] if mut else [])
    rng.shuffle(td.traits)
    td.tsem = {t: {} for t in td.traits}
    nv = 1 if kind == "struct" else rng.randint(1, 4)
    vnames = ["V0", "V1", "V2", "V3"]
    lt = False
    for vi in range(nv):
        style = rng.choice(["tuple", "named"])
        n = rng.randint(1, 5)
        fields = []
        # the same names in another order in every variant: position and name of a field are independent
        names = rng.sample(NAMES, n) if rng.random() < 0.7 else NAMES[:n]
        for i in range(n):
            kk = rng.choice(["T", "T", "U8", "OptT", "T"])
            fields.append(S.Field(names[i] if style == "named" else None, KINDS[kk], i))
        d = rng.randrange(n)
        dm = d if rng.random() < 0.5 else rng.randrange(n)
        # designated fields: value or reference typed, always targeting T
        dk = rng.choice(["T", "T", "RefT", "RefRefT"] + (["RefMutT"] if mut and dm == d else []))
        if mut and dm == d and dk in ("RefT", "RefRefT"):
            dk = rng.choice(["T", "RefMutT"])
        fields[d].kind = KINDS[dk]
        if mut and dm != d:
            fields[dm].kind = KINDS[rng.choice(["T", "T", "RefMutT"])]
        if any("a" in f.kind.needs for f in fields):
            lt = True
        v = S.Variant(vnames[vi] if kind == "enum" else None, style, fields)
        if n == 1 and rng.random() < 0.5:
            pass  # sole field: implicit designation
        else:
            fields[d].sem["Deref"] = {"flag": True}
            if mut:
                fields[dm].sem["DerefMut"] = {"flag": True}
        v.des = {"Deref": fields[d], "DerefMut": fields[dm] if mut else None}
        # foreign attributes (doc comments, lints) on any field, marked or not: they take no part in finding the designated
        # field and do not shift positions (own random stream: the definitions themselves stay what they were)
        frng = rng_for(seed, PROP, "foreign", k, vi)
        for f in fields:
            if frng.random() < 0.3:
                f.sem["_foreign"] = frng.sample(S.FOREIGN_ATTRS, frng.choice([1, 1, 2]))
        td.variants.append(v)
    if lt:
        td.params.append({"kind": "lt", "name": "'a", "arg": "'static"})
    td.notes["garg"] = "T"
    text = S.render(td, rng_for(seed, PROP, "spell", k), extras=False)
    vals = S.values(td, 6, rng)

    def acc(tr):
        arms = []
        for v in td.variants:
            f = v.des[tr]
            depth = {"T": 0, "RefT": 1, "RefMutT": 1, "RefRefT": 2}[f.kind.key]
            # f<slot> binds a reference to the field; follow `depth` more references to the referent
            e = "&%sf%d" % ("*" * (depth + 1), f.slot)
            arms.append("        %s => (%s) as *const %sT as usize," % (S.pattern(td, v), e, RT))
        return ("#[allow(unused_variables)]\npub fn addr_%s(x: &%s) -> usize {\n    match x {\n%s\n    }\n}\n"
                % (tr.lower(), td.inst(), "\n".join(arms)))
    glue = acc("Deref") + (acc("DerefMut") if mut else "")
    drive = ["""        for i in 0..%d {
            let x = mk(i, 0);
            %sbegin();
            // no coercion at the call site: the address and the SIZE of whatever Deref::deref returns
            let (p, sz) = %saddr_size(::core::ops::Deref::deref(&x));
            let r: &%sT = &*x;
            let ok = p == addr_deref(&x) && sz == ::core::mem::size_of::<%sT>();
            let s = format!("{}\\t{}", ok as u8, %spfp(r));
            %sobs("c%d", "deref", i, -1, &s);
        }""" % (len(vals), RT, RT, RT, RT, RT, RT, k)]
    if mut:
        drive.append("""        for i in 0..%d {
            let mut x = mk(i, 0);
            let before = %sFp::fp(&x);
            %sbegin();
            let (q, sz) = { let m = ::core::ops::DerefMut::deref_mut(&mut x); %saddr_size(&*m) };
            { let r: &mut %sT = &mut *x; *r = %sT::mk(5, 77, 1); }
            let ok = q == addr_derefmut(&x) && sz == ::core::mem::size_of::<%sT>();
            let s = format!("{}\\t{}\\t{}", ok as u8, before, %sFp::fp(&x));
            %sobs("c%d", "derefmut", i, -1, &s);
        }""" % (len(vals), RT, RT, RT, RT, RT, RT, RT, RT, k))
    return BH.Case("c%d" % k, td, text, vals, glue=glue, drive="\n".join(drive), info={"mut": mut})


def field_fp(f, side, a, gen=0):
    k = f.kind.key
    leaf = lambda v: "T%s.%d.%d.%d" % (side, f.slot, v, gen)
    if k == "T":
        return leaf(a)
    if k == "U8":
        return "u8:%d" % a
    if k == "OptT":
        return "N" if a == 0 else "S(%s)" % leaf(a - 1)
    if k == "RefT":
        return "R(%s)" % leaf(a)
    if k == "RefRefT":
        return "R(R(%s))" % leaf(a)
    if k == "RefMutT":
        return "M(%s)" % leaf(a)
    raise ValueError(k)


def wrap_written(f):
    w = "T5.77.1.0"
    return {"T": w, "RefMutT": "M(%s)" % w}[f.kind.key]


def judge(chk, c, obs, dropped, miri_obs=None):
    td = c.td
    if c.cid in dropped:
        chk.inconc("does-not-compile (see C01)")
        log("C09: case dropped: %s\n%s" % (dropped[c.cid][0]["rendered"] or dropped[c.cid][0]["message"], c.text))
        return
    files = {"case.rs": c.module(), "descriptor.json": json.dumps(S.describe(td), indent=1, default=str),
             "values.json": json.dumps(c.vals)}
    total = 0
    for which, ob in (("native", obs), ("miri", miri_obs)):
        if ob is None:
            continue
        o = ob.get(c.cid)
        if o is None or not o.began:
            if which == "native":
                chk.inconc("not-run")
                return
            continue
        if o.panic is not None or not o.ended:
            if which == "miri" and o.panic is None:
                # a Miri abort is judged from the Miri report of the binary, not here
                continue
            chk.violation("panic|" + (o.panic or "abort")[:60], "deref panicked/aborted (%s): %s\n%s" % (which, o.panic, c.text), files)
            return
        for op, i, j, res, ev in o.recs:
            vi, fs = c.vals[i]
            v = td.variants[vi]
            total += 1
            if op == "deref":
                f = v.des["Deref"]
                want = "T0.%d.%d.0" % (f.slot, fs[f.slot])
                if res[0] != "1" or res[1] != want:
                    chk.violation("deref-target|%s|%s" % (td.kind, f.kind.key),
                                  "&*x is not the designated field (%s)\nvalue = %s\nsame address: %s, target: %s, expected: %s\n%s"
                                  % (which, c.vals[i], res[0], res[1], want, c.text), files)
                    return
            elif op == "derefmut":
                f = v.des["DerefMut"]
                before = "v%d(%s)" % (vi, ",".join(field_fp(x, "0", a) for x, a in zip(v.fields, fs)))
                after = "v%d(%s)" % (vi, ",".join(wrap_written(x) if x is f else field_fp(x, "0", a)
                                                  for x, a in zip(v.fields, fs)))
                if res[0] != "1" or res[1] != before or res[2] != after:
                    chk.violation("derefmut-target|%s|%s" % (td.kind, f.kind.key),
                                  "writing through &mut *x did not change exactly the designated field (%s)\nvalue = %s\n"
                                  "same address: %s\nbefore: %s\nafter:  %s\nmodel:  %s\n%s"
                                  % (which, c.vals[i], res[0], res[1], res[2], after, c.text), files)
                    return
    multi = any(len(v.fields) >= 2 for v in td.variants)
    chk.held(digest(c.text), multi, total)
    chk.count("%s/mut=%s" % (td.kind, c.info["mut"]))
    if multi:
        chk.sample({"case": c.cid, "source": c.text, "observations": total}, limit=3)


# ---- second family: plain field types, reference-typed designated fields with unsized referents, PhantomData decoys,
# same-typed neighbours.  class -> (Target type, [(field type, reference depth, mutable)], value expr of the referent
# with {i}, expression writing through `m: &mut Target`, value expr after the write)
LEAK, LEAKM = RT + "leak", RT + "leak_mut"
CLASSES = {
    "u32": ("u32", [("u32", 0, True), ("&'a u32", 1, False), ("&'a &'a u32", 2, False), ("&'a mut u32", 1, True),
                    ("&'a mut &'a u32", 2, False), ("&'a &'a mut u32", 2, False), ("&'a mut &'a mut u32", 2, True),
                    ("&'a mut &'a &'a u32", 3, False)],
            "{i}u32 + 100", "*m = 777;", "777u32"),
    "slice": ("[u16]", [("&'a [u16]", 1, False), ("&'a mut [u16]", 1, True), ("&'a &'a [u16]", 2, False),
                        ("&'a mut &'a [u16]", 2, False), ("&'a mut &'a mut [u16]", 2, True)],
              "[{i}u16, 7, 9]", "m[0] = 777;", "[777u16, 7, 9]"),
    "str": ("str", [("&'static str", 1, False), ("&'a &'static str", 2, False)],
            "[\"p\", \"q\", \"r\", \"s\", \"t\", \"u\", \"v\", \"w\", \"x\", \"y\"][{i}]", None, None),
    "dyn": ("dyn ::core::fmt::Debug", [("&'static dyn ::core::fmt::Debug", 1, False), ("&'a &'static dyn ::core::fmt::Debug", 2, False),
                                       ("&'a &'a &'static dyn ::core::fmt::Debug", 3, False)], "{i}u64 + 500", None, None),
    # the trait object lives as long as the reference it sits behind (`&'a dyn Tr` is `&'a (dyn Tr + 'a)`)
    "dyna": ("(dyn ::core::fmt::Debug)", [("&'a dyn ::core::fmt::Debug", 1, False), ("&'a (dyn ::core::fmt::Debug + 'a)", 1, False),
                                            ("&'a &'a dyn ::core::fmt::Debug", 2, False)], "{i}u64 + 500", None, None),
    # a smart pointer whose own Deref leads elsewhere is a plain field: the target is the pointer, not what it points to
    "pin": ("::core::pin::Pin<&'static mut u32>", [("::core::pin::Pin<&'a mut u32>", 0, True)],
            "::core::pin::Pin::new(%s({i}u32 + 300))" % (RT + "leak_mut"), None, None),
    "box": ("::std::boxed::Box<u32>", [("::std::boxed::Box<u32>", 0, True), ("&'a ::std::boxed::Box<u32>", 1, False),
                                      ("&'a mut ::std::boxed::Box<u32>", 1, True)],
            "::std::boxed::Box::new({i}u32 + 200)", "**m = 777;", "::std::boxed::Box::new(777u32)"),
    "arr": ("[u8; 4]", [("[u8; 4]", 0, True), ("&'a [u8; 4]", 1, False), ("&'a mut [u8; 4]", 1, True)],
            "[{i}u8, 1, 2, 3]", "m[3] = 99;", "[{i}u8, 1, 2, 99]"),
}
# other spellings of the same field type (an alias defined next to the type, the qualified primitive): the target is one type
RESPELL = {"u32": ["::core::primitive::u32", "U32a"], "&'a u32": ["&'a ::core::primitive::u32", "&'a U32a"],
           "[u8; 4]": ["[::core::primitive::u8; 4]", "[u8; 4usize]", "Arr4a"], "&'a [u16]": ["&'a [::core::primitive::u16]"]}
RESPELL_ITEMS = "pub type U32a = u32;\npub type Arr4a = [u8; 4];\n"
RDECOYS = [("::core::marker::PhantomData<u8>", "::core::marker::PhantomData"),
           ("::core::marker::PhantomData<fn() -> u8>", "::core::marker::PhantomData"),
           ("bool", "true"), ("u64", "{i}u64"), ("()", "()"), ("::std::vec::Vec<u8>", "vec![{i}u8]")]


def rich_field_expr(ft, depth, mutable, val):
    """constructor expression of a field of (reference) type `ft` whose referent is `val`"""
    if depth == 0:
        return val
    if "mut" in ft and depth >= 2:
        # mixed nestings: one leak per layer, innermost first, mutable where the type says so
        layers = re.findall(r"&'a( mut)?", ft)
        e = val
        for m in reversed(layers):
            e = "%s(%s)" % (LEAKM if m else LEAK, e)
        return e
    if "str" in ft and depth == 1:
        return val
    inner = val
    if "dyn" in ft:
        e = "(%s(%s) as &'static dyn ::core::fmt::Debug)" % (LEAK, val)
        for _ in range(depth - 1):
            e = "%s(%s)" % (LEAK, e)
        return e
    e = "%s(%s)" % (LEAKM if (mutable and depth == 1) else LEAK, inner)
    for _ in range(depth - 1):
        e = "%s(%s)" % (LEAK, e)
    if "str" in ft:   # &'a &'static str
        return "%s(%s)" % (LEAK, val)
    return e


def rich_case(seed, k):
    rng = rng_for(seed, PROP, "rich", k)
    frng = rng_for(seed, PROP, "richforeign", k)
    cls = rng.choice(sorted(CLASSES))
    target, ftypes, val, write, after = CLASSES[cls]
    mut = write is not None and rng.random() < 0.6
    kind = rng.choice(["struct", "enum", "enum"])
    nv = 1 if kind == "struct" else rng.randint(1, 3)
    variants = []
    for vi in range(nv):
        named = rng.random() < 0.5
        n = rng.randint(1, 5)
        fields = []
        for i in range(n):
            r = rng.random()
            if r < 0.45:
                # a same-typed neighbour of the designated fields (an off-by-one then still type-checks)
                ft, depth, m = rng.choice(ftypes)
                fields.append({"ty": ft, "depth": depth, "mutable": m, "cls": True})
            else:
                ty, v = rng.choice(RDECOYS)
                fields.append({"ty": ty, "val": v, "cls": False})
        d = rng.randrange(n)
        dm = d if rng.random() < 0.5 else rng.randrange(n)
        ft, depth, m = rng.choice(ftypes)
        fields[d] = {"ty": ft, "depth": depth, "mutable": m, "cls": True}
        if mut:
            cands = [t for t in ftypes if t[2]]
            if dm != d or not fields[d]["mutable"]:
                ft, depth, m = rng.choice(cands)
                fields[dm] = {"ty": ft, "depth": depth, "mutable": m, "cls": True}
        for f in fields:
            if f["cls"]:
                f["base"] = f["ty"]
                if f["ty"] in RESPELL and rng.random() < 0.35:
                    f["ty"] = rng.choice(RESPELL[f["ty"]])
        rnames = rng.sample(["f0", "f1", "f2", "f3", "f4"], n) if rng.random() < 0.7 else ["f%d" % i for i in range(n)]
        for i, f in enumerate(fields):
            f["i"] = i
            f["name"] = rnames[i] if named else None
            if f["cls"]:
                f["val"] = None
        sole = n == 1 and rng.random() < 0.5
        variants.append({"name": "V%d" % vi, "named": named, "fields": fields, "d": d, "dm": dm if mut else None, "sole": sole})
    lt = any("'a" in f["ty"] for v in variants for f in v["fields"])
    decl = "<'a>" if lt else ""
    inst = "<'static>" if lt else ""
    # a fifth of the definitions are written by a macro_rules! macro: the field types reach the derive as `ty` fragments
    via_macro = rng.random() < 0.2
    margs = []
    saved = []
    if via_macro:
        for v in variants:
            for f in v["fields"]:
                saved.append(f["ty"])
                if f["ty"].startswith("&'a &") and rng.random() < 0.7:
                    # the fragment sits between two reference layers: `&'a $t` with `$t = &'a dyn ..`
                    margs.append(f["ty"][4:])
                    f["ty"] = "&'a $t%d" % (len(margs) - 1)
                else:
                    margs.append(f["ty"])
                    f["ty"] = "$t%d" % (len(margs) - 1)

    def fdecl(v, f, vis):
        marks = []
        if not v["sole"]:
            if f["i"] == v["d"] and "Deref" in traits:
                marks.append("Deref")
            if mut and f["i"] == v["dm"]:
                marks.append("DerefMut")
        rng.shuffle(marks)
        a = ""
        if marks:
            a = "#[educe(%s)] " % ", ".join(marks) if rng.random() < 0.6 else "".join("#[educe(%s)] " % m for m in marks)
        fa = f.setdefault("foreign", frng.choice(["", "", "#[allow(dead_code)] ", "#[doc = \"d\"] ", "#[cfg(all())] "]))
        a = (fa + a) if f["i"] % 2 else (a + fa)
        if vis:
            # (how visible a field is has nothing to do with which field is designated)
            vis = f.setdefault("vis", rng.choice(["pub ", "pub ", "", "pub(crate) ", "pub(self) "]))
        return "%s%s%s%s" % (a, vis, (f["name"] + ": ") if f["name"] else "", f["ty"])
    traits = ["Deref"] + (["DerefMut"] if mut else [])
    rng.shuffle(traits)
    # DerefMut alone next to a hand-written Deref impl is legal: the generated impl names its target through the trait
    manual_deref = mut and rng.random() < 0.2
    if manual_deref:
        traits = ["DerefMut"]
    head = "#[derive(::educe::Educe, Debug)]\n#[educe(%s)]\n" % ", ".join(traits)
    if kind == "struct":
        v = variants[0]
        body = "".join("    %s,\n" % fdecl(v, f, "pub ") for f in v["fields"])
        text = head + ("pub struct Ty%s {\n%s}\n" % (decl, body) if v["named"] else "pub struct Ty%s(\n%s);\n" % (decl, body))
    else:
        vs = []
        for v in variants:
            body = "".join("        %s,\n" % fdecl(v, f, "") for f in v["fields"])
            vs.append("    %s %s\n%s    %s,\n" % (v["name"], "{" if v["named"] else "(", body, "}" if v["named"] else ")"))
        text = head + "pub enum Ty%s {\n%s}\n" % (decl, "".join(vs))
    if "U32a" in text or "Arr4a" in text or any(m for m in margs if "U32a" in m or "Arr4a" in m):
        text = RESPELL_ITEMS + text
    if via_macro:
        text = "macro_rules! mk { (%s) => {\n%s} }\nmk!(%s);\n" % (", ".join("$t%d:ty" % i for i in range(len(margs))), text, ", ".join(margs))
        k2 = 0
        for v in variants:
            for f in v["fields"]:
                f["ty"] = saved[k2]
                k2 += 1

    def ctor(v, written):
        exprs = []
        for f in v["fields"]:
            if f["cls"]:
                referent = val.format(i=f["i"] + 1)
                if written and f["i"] == v["dm"]:
                    referent = after.format(i=f["i"] + 1)
                exprs.append(rich_field_expr(f.get("base", f["ty"]), f["depth"], f["mutable"], referent))
            else:
                exprs.append(f["val"].format(i=f["i"] + 1))
        path = "Ty::%s" % v["name"] if kind == "enum" else "Ty"
        if v["named"]:
            return "%s { %s }" % (path, ", ".join("%s: %s" % (f["name"], e) for f, e in zip(v["fields"], exprs)))
        return "%s(%s)" % (path, ", ".join(exprs))

    def pat(v, which):
        f = v["fields"][which]
        path = "Ty::%s" % v["name"] if kind == "enum" else "Ty"
        if v["named"]:
            return "%s { %s: g, .. }" % (path, f["name"])
        return "%s(%sg, ..)" % (path, "_, " * which)
    gl, drive = [], []
    for vi, v in enumerate(variants):
        gl.append("pub fn mk%d() -> Ty%s { %s }\n" % (vi, inst, ctor(v, False)))
        if mut:
            gl.append("pub fn mk_after%d() -> Ty%s { %s }\n" % (vi, inst, ctor(v, True)))
    for tr, key in (("deref", "d"), ("derefmut", "dm")):
        if key == "dm" and not mut:
            continue
        arms = []
        for v in variants:
            f = v["fields"][v[key]]
            arms.append("        %s => { let t: &%s = &%sg; %saddr_size(t) }" % (pat(v, v[key]), target, "*" * (f["depth"] + 1), RT))
        gl.append("#[allow(unreachable_patterns, unused_variables)]\npub fn want_%s(x: &Ty%s) -> (usize, usize) {\n    match x {\n%s\n"
                  "        _ => (0, 0),\n    }\n}\n" % (tr, inst, "\n".join(arms)))
    if manual_deref:
        arms = []
        for v in variants:
            f = v["fields"][v["d"]]
            arms.append("            %s => { let t: &%s = &%sg; t }" % (pat(v, v["d"]), target, "*" * (f["depth"] + 1)))
        # (part of the definition text: C01 compiles these texts as well)
        text += ("impl%s ::core::ops::Deref for Ty%s {\n    type Target = %s;\n    #[allow(unreachable_patterns)]\n    fn deref(&self) -> &%s {\n"
                 "        match self {\n%s\n        }\n    }\n}\n" % (decl, decl, target, target, "\n".join(arms)))
    for vi, v in enumerate(variants):
        drive.append("""        {
            let x = mk%d();
            %sbegin();
            let got = %saddr_size(::core::ops::Deref::deref(&x));
            let t: &%s = &*x;
            %sobs("h%d", "rderef", %d, -1, &format!("{}\\t{:?}\\t{:?}\\t{:?}", (got == want_deref(&x)) as u8, got, want_deref(&x), t));
        }""" % (vi, RT, RT, target, RT, k, vi))
        if mut:
            drive.append("""        {
            let mut x = mk%d();
            %sbegin();
            let got = { let m = ::core::ops::DerefMut::deref_mut(&mut x); %saddr_size(&*m) };
            let same = got == want_derefmut(&x);
            { let m: &mut %s = &mut *x; %s }
            %sobs("h%d", "rderefmut", %d, -1, &format!("{}\\t{:?}\\t{:?}", same as u8, x, mk_after%d()));
        }""" % (vi, RT, RT, target, write, RT, k, vi, vi))
    c = BH.Case("h%d" % k, None, text, [], glue="".join(gl), drive="\n".join(drive),
                info={"rich": True, "mut": mut, "cls": cls, "kind": kind, "n": len(variants) * (2 if mut else 1),
                      "multi": any(len(v["fields"]) >= 2 for v in variants)})
    c.module = lambda c=c: H.module(c.cid, c.text + c.glue + "pub fn run() {\n    %sguarded(\"%s\", || {\n%s\n    });\n}\n"
                                    % (RT, c.cid, c.drive))
    return c


def self_ref_case(seed, k):
    """the designated field is a reference to the derived type itself (`&'a Ty<'a>`, `&'a &'a Ty<'a>`): Target is the type,
    `&*x` the referent.  The values are statics that point at each other."""
    rng = rng_for(seed, PROP, "selfref", k)
    depth = rng.choice([1, 1, 2])
    path = rng.choice(["Ty<'a>", "Ty<'a>", "self::Ty<'a>"])
    fty = "&'a " * depth + path
    kind = rng.choice(["struct", "tuple", "enum"])
    mark = rng.random() < 0.7
    deco = rng.random() < 0.6
    a = "#[educe(Deref)] " if (mark or deco) else ""

    def ref(name):
        e = "&" + name
        for _ in range(depth - 1):
            e = "&" + e
        return e
    if kind == "struct":
        fields = [("depth", "u32", None)] if deco else []
        fields.insert(rng.randint(0, len(fields)), ("parent", fty, a))
        if deco and rng.random() < 0.5:
            fields.append(("other", fty, ""))
        text = "#[derive(::educe::Educe)]\n#[educe(Deref)]\npub struct Ty<'a> {\n%s}\n" % "".join(
            "    %spub %s: %s,\n" % (at or "", n, t) for n, t, at in fields)

        def val(me, to):
            return "Ty { %s }" % ", ".join("%s: %s" % (n, "7" if n == "depth" else ref(to if n == "parent" else me)) for n, t, at in fields)
        acc = "x.parent"
    elif kind == "tuple":
        fields = [("u32", None)] if deco else []
        pos = rng.randint(0, len(fields))
        fields.insert(pos, (fty, a))
        text = "#[derive(::educe::Educe)]\n#[educe(Deref)]\npub struct Ty<'a>(%s);\n" % ", ".join("%spub %s" % (at or "", t) for t, at in fields)

        def val(me, to):
            return "Ty(%s)" % ", ".join("7" if t == "u32" else ref(to) for t, at in fields)
        acc = "x.%d" % pos
    else:
        text = ("#[derive(::educe::Educe)]\n#[educe(Deref)]\npub enum Ty<'a> {\n    Next(%s),\n    Skip {\n        by: u8,\n        #[educe(Deref)]\n"
                "        to: %s,\n    },\n}\n" % (fty, fty))

        def val(me, to):
            return ("Ty::Next(%s)" % ref(to)) if me == "A" else ("Ty::Skip { by: 3, to: %s }" % ref(to))
        acc = "(match x { Ty::Next(p) => *p, Ty::Skip { to, .. } => *to })"
    glue = "pub static A: Ty<'static> = %s;\npub static B: Ty<'static> = %s;\n" % (val("A", "B"), val("B", "A"))
    stars = "*" * (depth - 1)
    drive = []
    for i, me in enumerate(("A", "B")):
        drive.append("""        {
            let x: &Ty<'static> = &%s;
            %sbegin();
            let got = %saddr_size(::core::ops::Deref::deref(x));
            let t: &Ty<'static> = &**x;
            let want = %saddr_size::<Ty<'static>>(%s%s);
            %sobs("s%d", "rderef", %d, -1, &format!("{}\\t{:?}\\t{:?}\\t{:?}", (got == want && %saddr_size(t) == want) as u8, got, want, "-"));
        }""" % (me, RT, RT, RT, stars, acc, RT, k, i, RT))
    c = BH.Case("s%d" % k, None, text, [], glue=glue, drive="\n".join(drive),
                info={"rich": True, "mut": False, "cls": "self-reference", "kind": kind, "n": 2, "multi": True})
    c.module = lambda c=c: H.module(c.cid, c.text + c.glue + "pub fn run() {\n    %sguarded(\"%s\", || {\n%s\n    });\n}\n"
                                    % (RT, c.cid, c.drive))
    return c


def big_tuple_case(seed):
    """a tuple struct with 300 fields: positions beyond 255 (and beyond 9 / 99) must still be the positions that were marked"""
    rng = rng_for(seed, PROP, "big")
    n = 300
    d, dm = rng.randrange(256, n), rng.randrange(256, n)
    fields = []
    for i in range(n):
        marks = (["Deref"] if i == d else []) + (["DerefMut"] if i == dm else [])
        # (every seventh unmarked field carries a foreign attribute: positions are counted over all fields)
        fields.append(("#[educe(%s)] " % ", ".join(marks) if marks else ("#[allow(dead_code)] " if i % 7 == 3 else "/// doc\n    " if i % 7 == 5 else ""))
                      + "pub u8")
    text = "#[derive(::educe::Educe, Debug)]\n#[educe(Deref, DerefMut)]\npub struct Ty(\n%s);\n" % "".join("    %s,\n" % f for f in fields)
    vals = ", ".join(str(i % 251) for i in range(n))
    after = ", ".join("200" if i == dm else str(i % 251) for i in range(n))
    glue = "pub fn mk0() -> Ty { Ty(%s) }\npub fn mk_after0() -> Ty { Ty(%s) }\n" % (vals, after)
    drive = ("""        {
            let x = mk0();
            %sbegin();
            let got = %saddr_size(::core::ops::Deref::deref(&x));
            let want = %saddr_size(&x.%d);
            %sobs("hbig", "rderef", 0, -1, &format!("{}\\t{:?}\\t{:?}\\t{:?}", (got == want) as u8, got, want, *x));
        }
        {
            let mut x = mk0();
            %sbegin();
            let got = { let m = ::core::ops::DerefMut::deref_mut(&mut x); %saddr_size(&*m) };
            let same = got == %saddr_size(&x.%d);
            { let m: &mut u8 = &mut *x; *m = 200; }
            %sobs("hbig", "rderefmut", 0, -1, &format!("{}\\t{:?}\\t{:?}", same as u8, x, mk_after0()));
        }""" % (RT, RT, RT, d, RT, RT, RT, RT, dm, RT))
    c = BH.Case("hbig", None, text, [], glue=glue, drive=drive,
                info={"rich": True, "mut": True, "cls": "u8x300", "kind": "struct", "n": 2, "multi": True})
    c.module = lambda c=c: H.module(c.cid, c.text + c.glue + "pub fn run() {\n    %sguarded(\"%s\", || {\n%s\n    });\n}\n"
                                    % (RT, c.cid, c.drive))
    return c


def judge_rich(chk, c, obs, dropped, miri_obs=None):
    if c.cid in dropped:
        d = dropped[c.cid][0]
        chk.violation("rich-refused|%s|%s" % (c.info["cls"], d.get("code") or d["message"][:50]),
                      "a Deref/DerefMut request on plain field types does not compile:\n%s\n%s"
                      % (d.get("rendered") or d["message"], c.text), {"case.rs": c.module()})
        return
    files = {"case.rs": c.module()}
    total = 0
    for which, ob in (("native", obs), ("miri", miri_obs)):
        if ob is None:
            continue
        o = ob.get(c.cid)
        if o is None or not o.began:
            if which == "native":
                chk.inconc("not-run")
                return
            continue
        if o.panic is not None or not o.ended:
            if which == "miri" and o.panic is None:
                continue
            chk.violation("panic|" + (o.panic or "abort")[:60], "deref panicked/aborted (%s): %s\n%s" % (which, o.panic, c.text), files)
            return
        if len(o.recs) != c.info["n"]:
            chk.inconc("incomplete-output")
            return
        for op, i, j, res, ev in o.recs:
            total += 1
            if op == "rderef" and res[0] != "1":
                chk.violation("deref-target|rich|%s" % c.info["cls"], "&*x (variant %d) is not the designated field's storage / referent (%s)\n"
                              "(address, size) observed %s, designated %s, value seen %s\n%s" % (i, which, res[1], res[2], res[3], c.text), files)
                return
            if op == "rderefmut" and (res[0] != "1" or res[1] != res[2]):
                chk.violation("derefmut-target|rich|%s" % c.info["cls"], "&mut *x (variant %d) is not the designated field, or the write changed "
                              "something else (%s)\nsame address: %s\nafter the write: %s\nexpected:        %s\n%s"
                              % (i, which, res[0], res[1], res[2], c.text), files)
                return
    chk.held(digest(c.text), c.info["multi"], total)
    chk.count("rich/%s/%s/mut=%s" % (c.info["cls"], c.info["kind"], c.info["mut"]))
    if c.info["multi"]:
        chk.sample({"case": c.cid, "source": c.text, "observations": total}, limit=5)


def main(tier, seed, scale=1.0):
    chk = Check(PROP, tier, seed)
    n = int((320 if tier == "quick" else 5000) * scale)
    n_miri = int((64 if tier == "quick" else 640) * scale)
    chk.rule = ("random struct/enum definitions with 1..5 fields per variant, Deref and DerefMut markers at independent "
                "positions (or the sole field), named and tuple shapes, designated fields of type T, &T, &&T, &mut T; "
                "pointer identity and before/after fingerprints for every value; a slice of the cases also under Miri; "
                "non-trivial = some variant has >= 2 fields; distinct by source text")
    chk.assumptions = ["field addresses come from a generator-written match accessor"]
    cases = [gen_case(seed, k) for k in range(n)]
    cases = [x for pair in zip(cases, [rich_case(seed, k) for k in range(n)]) for x in pair] + [big_tuple_case(seed)] + \
        [self_ref_case(seed, k) for k in range(max(12, n // 16))]
    obs, dropped, crashed, _, _ = BH.execute("c09", cases)
    for b, (rc, err) in crashed.items():
        log("C09: binary %s exited with %s: %s" % (b, rc, err[-500:]))
    mcases = cases[:n_miri]
    progs = BH.programs(mcases, nbins=min(16, max(1, n_miri // 8)))
    H.compile_programs("c09m", progs)
    miri_obs, reports = BH.run_miri("c09m", progs, {})
    for b, (rc, err) in reports.items():
        if BH.classify_miri(err) == "tool":
            chk.inconc("miri-tool-failure")
            log("C09: Miri failed on %s without a UB report: %s" % (b, err[-400:].replace("\n", " | ")))
            continue
        chk.violation("miri|" + digest(err[-400:]), "Miri reports an error while running the Deref/DerefMut workload "
                      "(bin %s)\n%s" % (b, err[-3000:]), {"miri.txt": err, "crate.rs": progs[b].source()})
    chk.extra["miri_processes"] = len(progs)
    chk.extra["miri_cases"] = len([c for c in mcases if c.cid in miri_obs])
    ms = set(c.cid for c in mcases)
    for c in cases:
        (judge_rich if c.info.get("rich") else judge)(chk, c, obs, dropped, miri_obs if c.cid in ms else None)
    return chk.finish()
