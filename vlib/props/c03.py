"""C03 — ordering is lexicographic over non-ignored fields in rank order.
Monitor: cmp / partial_cmp of the educed impls on all ordered pairs of a value set; oracle = python
reference (rank sort, first non-Equal, None propagation); partial_cmp == Some(cmp) when both are
educed; order laws on the recorded table; custom-method argument order from the event log."""
import json
import re

from .. import behave as BH
from .. import gen as G
from .. import model as M
from .. import shapes as S
from .. import twin as TW
from ..common import Check, digest, log, rng_for

PROP = "C03"


def gen_case(seed, k, cap):
    rng = rng_for(seed, PROP, "case", k)
    mode = rng.choice(["PartialOrd", "PartialOrd", "Ord", "Both", "Both"])
    ts = {"PartialOrd": ["PartialOrd"], "Ord": ["Ord"], "Both": ["PartialOrd", "Ord"]}[mode]
    if rng.random() < 0.5:
        ts = ts + ["PartialEq"] + (["Eq"] if rng.random() < 0.5 or mode != "PartialOrd" else [])
    ts = ts + rng.sample(["Debug", "Clone", "Hash"], rng.randint(0, 1))
    rng.shuffle(ts)
    edge = rng.random() < 0.2
    if edge:
        # rank-edge flavour: many fields, ignored ones in front, explicit ranks inside the range of the default ranks
        td = G.random_type(rng, ts, G.Opts(p_attr=0.9, max_fields=6, max_variants=3, min_fields=4, p_partial=0.2, p_rank_edge=1.0,
                                           p_uniform=0.6))
    elif rng.random() < 0.12:
        # no field is compared by the built-in trait (custom method or ignored): the variant is still compared, and
        # two values of one variant by their fields
        td = G.random_type(rng, ts, G.Opts(p_attr=0.9, max_fields=4, max_variants=4, min_fields=0, p_partial=0.3, all_method=True,
                                           kind=rng.choice(["enum", "enum", "struct"])))
    else:
        td = G.random_type(rng, ts, G.Opts(p_attr=0.9, max_fields=5, max_variants=4, min_fields=0, p_partial=0.5, p_packed=0.5))
    text = S.render(td, rng_for(seed, PROP, "spell", k), extras=False)
    vals = S.values(td, cap * 3 if edge else cap, rng)
    drive = []
    if "Ord" in td.traits:
        drive.append("        %sdrive_cmp(\"c%d\", %d, &mk);" % (S.RT, k, len(vals)))
        drive.append("        %sdrive_cmp_self(\"c%d\", %d, &mk);" % (S.RT, k, len(vals)))
    if "PartialOrd" in td.traits:
        # with Ord alone partial_cmp comes from the user's own impl (std derive here), not from educe
        drive.append("        %sdrive_pcmp(\"c%d\", %d, &mk);" % (S.RT, k, len(vals)))
        drive.append("        %sdrive_pcmp_self(\"c%d\", %d, &mk);" % (S.RT, k, len(vals)))
    return BH.Case("c%d" % k, td, text, vals, drive="\n".join(drive), info={"mode": mode})


def expected(td, va, vb, key, partial):
    """-1/0/1, or None (incomparable)"""
    (ia, fa), (ib, fb) = va, vb
    if ia != ib:
        dv = td.notes.get("dvals")
        da, db = (dv[ia], dv[ib]) if dv else (ia, ib)
        return (da > db) - (da < db)
    garg = td.notes["garg"]
    v = td.variants[ia]
    for f in M.compared_fields(td, v, key):
        a, b = fa[f.slot], fb[f.slot]
        s = f.sem.get(key, {})
        if s.get("method"):
            r = BH.method_cmp(s["method"], a, b)
        else:
            r = BH.builtin_pcmp(f.kind, garg, a, b)
        if r is None:
            return None
        if r != 0:
            return r
    return 0


SLOT_RE = re.compile(r"[TCP]\d+\.(\d+)\.-?\d+\.\d+")


def visited(td, va, vb, key):
    """the compared fields the impl has to visit, in order: rank order up to and including the first decisive one"""
    (ia, fa), (ib, fb) = va, vb
    if ia != ib:
        return []
    garg = td.notes["garg"]
    out = []
    for f in M.compared_fields(td, td.variants[ia], key):
        a, b = fa[f.slot], fb[f.slot]
        s = f.sem.get(key, {})
        r = BH.method_cmp(s["method"], a, b) if s.get("method") else BH.builtin_pcmp(f.kind, garg, a, b)
        out.append(f)
        if r is None or r != 0:
            break
    return out


def events_problem(td, va, vb, key, ev):
    """each visited field is compared once, in order, and nothing behind the decisive field is evaluated at all"""
    want = visited(td, va, vb, key)
    order = [f.slot for f in want]
    leaf_events, seen, n_method = {}, [], 0
    for e in (ev.split(",") if ev != "-" else []):
        if e.startswith("pc:") or e.startswith("c:"):
            slot = int(e.split(":", 1)[1].split("/")[0].split(".")[1])
            leaf_events[slot] = leaf_events.get(slot, 0) + 1
        elif e.startswith("m_"):
            n_method += 1
            m = SLOT_RE.search(e)
            if not m:
                continue    # the arguments carry no position (None, an empty Vec, a plain integer)
            slot = int(m.group(1))
        else:
            continue
        if slot not in seen:
            seen.append(slot)
    extra = [sl for sl in seen if sl not in order]
    if extra:
        return "field %d was compared although %s" % (extra[0], "an earlier field had already decided" if va[0] == vb[0] else
                                                       "the operands are different variants")
    if [sl for sl in order if sl in seen] != seen:
        return "fields were compared in the order %s, rank order is %s" % (seen, order)
    methods = [f for f in want if f.sem.get(key, {}).get("method")]
    if n_method != len(methods):
        return "%d custom-method calls for %d visited method fields" % (n_method, len(methods))
    for f in want:
        if f.sem.get(key, {}).get("method"):
            continue
        if (f.kind.key in ("T", "Ct", "P", "BoxT", "RefT") or (f.kind.key in ("G", "WrapG", "RefG"))) and leaf_events.get(f.slot, 0) != 1:
            return "field %d was compared %d times" % (f.slot, leaf_events.get(f.slot, 0))
    return None


def lawful_value(td, v, key):
    garg = td.notes["garg"]
    i, fs = v
    for f, a in zip(td.variants[i].fields, fs):
        s = f.sem.get(key, {})
        if s.get("ignore"):
            continue
        if s.get("method", "").endswith("pcmp_nan2") and a == 2:
            return False
        if not s.get("method") and BH.is_nan(f.kind, garg, a):
            return False
    return True


def judge(chk, c, obs, dropped):
    td = c.td
    if c.cid in dropped:
        chk.inconc("does-not-compile (see C01)")
        log("C03: case dropped: %s\n%s" % (dropped[c.cid][0]["message"], c.text))
        return
    o = obs.get(c.cid)
    if o is None or not o.began:
        chk.inconc("not-run")
        return
    files = {"case.rs": c.module(), "descriptor.json": json.dumps(S.describe(td), indent=1, default=str),
             "values.json": json.dumps(c.vals)}
    if o.panic is not None or not o.ended:
        chk.violation("panic|" + (o.panic or "abort")[:60], "comparison panicked/aborted: %s\n%s" % (o.panic, c.text), files)
        return
    key = "Ord" if "Ord" in td.traits else "PartialOrd"
    n = len(c.vals)
    table = {}
    evmap = {}
    mev = 0
    for op, i, j, res, ev in o.recs:
        if op in ("pcmp", "pcmpself") and len(res) > 1:
            r = BH.ORD[res[0]]
            want_ops = "0000" if r is None else "%d%d%d%d" % (r < 0, r <= 0, r > 0, r >= 0)
            if res[1] != want_ops:
                chk.violation("operators|%s" % td.kind, "the operators <, <=, >, >= give %s although partial_cmp gives %s (expected %s)\n"
                              "a = %s\nb = %s\n%s" % (res[1], res[0], want_ops, c.vals[i], c.vals[j if j >= 0 else i], c.text), files)
                return
        if op in ("cmpself", "pcmpself"):
            want = expected(td, c.vals[i], c.vals[i], key, key != "Ord")
            if BH.ORD[res[0]] != want:
                chk.violation("%s|%s" % (op, td.kind), "a value compared with itself (same object): %s gives %s, oracle says %s\n"
                              "a = %s\n%s" % (op, res[0], want, c.vals[i], c.text), files)
                return
            continue
        table[(op, i, j)] = BH.ORD[res[0]]
        evmap[(op, i, j)] = ev
        prob = events_problem(td, c.vals[i], c.vals[j], key, ev)
        if prob:
            chk.violation("evaluation|%s" % td.kind, "%s: %s\na = %s\nb = %s\nevents: %s\n%s" % (op, prob, c.vals[i], c.vals[j], ev, c.text), files)
            return
        ok, k = BH.method_events_ok(ev)
        mev += k
        if not ok:
            chk.violation("method-args|%s" % td.kind, "custom method did not receive (left, right): %s\n%s" % (ev, c.text), files)
            return
    ops = (["pcmp"] if "PartialOrd" in td.traits else []) + (["cmp"] if key == "Ord" else [])
    if len(table) != len(ops) * n * n:
        chk.inconc("incomplete-output")
        return
    if len(ops) == 2:
        # both educed: partial_cmp IS Some(cmp): the same calls reach the fields (a field type's own partial_cmp is never asked)
        for i in range(n):
            for j in range(n):
                if evmap.get(("pcmp", i, j)) != evmap.get(("cmp", i, j)):
                    chk.violation("partial-cmp-is-not-cmp|%s" % td.kind, "PartialOrd and Ord are educed together, yet partial_cmp(a, b) does not do what "
                                  "cmp(a, b) does\npartial_cmp events: %s\ncmp events:         %s\na = %s\nb = %s\n%s"
                                  % (evmap.get(("pcmp", i, j)), evmap.get(("cmp", i, j)), c.vals[i], c.vals[j], c.text), files)
                    return
    for i in range(n):
        for j in range(n):
            want = expected(td, c.vals[i], c.vals[j], key, key != "Ord")
            for op in ops:
                got = table[(op, i, j)]
                if got != want:
                    chk.violation("%s-result|%s" % (op, td.kind), "%s(a, b) is %s, oracle says %s\na = %s\nb = %s\n%s" %
                                  (op, got, want, c.vals[i], c.vals[j], c.text), files)
                    return
            if len(ops) == 2 and table[("pcmp", i, j)] != table[("cmp", i, j)]:
                chk.violation("partial-vs-total", "partial_cmp(a, b) != Some(cmp(a, b))\n%s %s\n%s" %
                              (c.vals[i], c.vals[j], c.text), files)
                return
    law = [i for i in range(n) if lawful_value(td, c.vals[i], key)]
    t = lambda i, j: table[(ops[0], i, j)]
    for i in law:
        if t(i, i) != 0:
            chk.violation("law-reflexive", "cmp(a, a) != Equal\n%s\n%s" % (c.vals[i], c.text), files)
            return
        for j in law:
            if t(i, j) is None or t(j, i) is None or t(i, j) != -t(j, i):
                chk.violation("law-antisymmetric", "cmp(a, b) is not the reverse of cmp(b, a)\n%s %s\n%s" %
                              (c.vals[i], c.vals[j], c.text), files)
                return
            if t(i, j) == -1:
                for k in law:
                    if t(j, k) == -1 and t(i, k) != -1:
                        chk.violation("law-transitive", "a < b, b < c, not a < c\n%s" % c.text, files)
                        return
    attrs = sum(1 for _, f in td.all_fields() if f.sem.get(key))
    ranks = sum(1 for _, f in td.all_fields() if f.sem.get(key, {}).get("rank") is not None)
    chk.held(digest(c.text), attrs >= 1 or len(td.variants) >= 2, len(ops) * n * n)
    chk.count("%s/%s/ranks=%d" % (c.info["mode"], td.kind, min(ranks, 3)))
    chk.extra["method_events"] = chk.extra.get("method_events", 0) + mev
    if ranks:
        chk.sample({"case": c.cid, "source": c.text, "values": len(c.vals),
                    "history_excerpt": ["%s %s %s -> %s [%s]" % (op, c.vals[i], c.vals[j], res[0], ev)
                                        for op, i, j, res, ev in o.recs[:4]]}, limit=3)


def main(tier, seed, scale=1.0):
    chk = Check(PROP, tier, seed)
    n = int((640 if tier == "quick" else 30000) * scale)
    cap = 20 if tier == "quick" else 36
    chk.rule = ("random struct/enum definitions with PartialOrd, Ord or both educed; ignore/method/rank attributes "
                "(negative, huge, string and parenthesised ranks) carried by Ord(..) or PartialOrd(..); NaN-like "
                "payloads for PartialOrd-only types; all ordered pairs of a value set; non-trivial = at least one "
                "ordering attribute or >= 2 variants; distinct by source text")
    chk.assumptions = ["cross-variant order is taken as declaration order here (no explicit discriminants); C04 "
                       "covers discriminants and layouts"]
    batch = 640
    for k0 in range(0, n, batch):
        cases = [gen_case(seed, k, cap) for k in range(k0, min(n, k0 + batch))]
        obs, dropped, crashed, _, _ = BH.execute("c03", cases)
        for b, (rc, err) in crashed.items():
            log("C03: binary %s exited with %s: %s" % (b, rc, err[-500:]))
        for c in cases:
            judge(chk, c, obs, dropped)
    # differential family: parameter-free requests over std field types against std's derives
    tw = TW.cases(seed, PROP, max(40, n // 4), "ord")
    obs, dropped, crashed, _, _ = BH.execute("c03w", tw)
    for c in tw:
        TW.judge(chk, c, obs, dropped, "ordering")
    return chk.finish()
