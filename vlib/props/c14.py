"""C14 — alternative attribute spellings are interchangeable.
A group = one semantic request rendered in several documented spellings (p = v / p(v), string
forms, name/rename, expression/expr, Trait = X shorthands, ignore forms, one or several #[educe]
attributes, any order of traits and of parameters).  Monitor: multiset of impl items of the
in-process expansion must be identical inside a group."""
import collections
import json

from .. import attrs as A
from .. import build as B
from .. import gen as G
from .. import shapes as S
from .. import unions as U
from ..common import Check, digest, log, rng_for

PROP = "C14"


def gen_group(seed, k, members):
    rng = rng_for(seed, PROP, "case", k)
    if rng.random() < 0.08:
        td = U.random_union(rng)
    else:
        td = G.random_type(rng, G.random_trait_set(rng), G.Opts(p_attr=0.8, rich=True))
    texts = [S.render(td, canonical=True, extras=False)]
    for m in range(members - 1):
        r = rng_for(seed, PROP, "spell", k, m)
        texts.append(S.render(td, r, extras=False, order_rng=rng_for(seed, PROP, "order", k, m),
                              layout=r.choice(["one", "split", "mixed", None])))
    return td, [t.replace("::educe::Educe", "Educe") for t in texts]


def single_param_groups(seed, n):
    """systematic groups: one field, one parameter, every spelling of that entry."""
    out = []
    specs = [
        ("Debug", "field", [("ignore", "flagbool", True)]),
        ("Debug", "field", [("name", "ident", "renamed")]),
        ("Debug", "field", [("method", "path", "::verif_rt::fmt_alt")]),
        ("PartialEq", "field", [("ignore", "flagbool", True)]),
        ("PartialEq", "field", [("method", "path", "::verif_rt::eq_mod2")]),
        ("PartialOrd", "field", [("ignore", "flagbool", True)]),
        ("PartialOrd", "field", [("rank", "int", -3)]),
        ("PartialOrd", "field", [("rank", "int", 7), ("method", "path", "::verif_rt::pcmp_rev")]),
        ("Ord", "field", [("rank", "int", 12)]),
        ("Ord", "field", [("rank", "int", 9223372036854775807)]),
        ("Ord", "field", [("rank", "int", -9223372036854775800)]),
        ("Ord", "field", [("method", "path", "::verif_rt::cmp_rev"), ("ignore", "flagbool", False)]),
        ("Hash", "field", [("ignore", "flagbool", True)]),
        ("Hash", "field", [("method", "path", "::verif_rt::hash_alt")]),
        ("Clone", "field", [("method", "path", "::verif_rt::clone_alt")]),
        ("Default", "field", [("expression", "expr", "::verif_rt::T::mk(7, 0, 1)")]),
        ("Default", "field", [("expression", "expr", "1 + 2")]),
        ("Default", "field", [("expression", "expr", "-1")]),
        ("Default", "field", [("expression", "expr", "-2.5")]),
        ("Default", "field", [("expression", "expr", "7u8")]),
        ("Default", "field", [("expression", "expr", "\"text\"")]),
        ("Default", "field", [("expression", "expr", "-(3)")]),
        ("Debug", "type", [("name", "identbool", "Other")]),
        ("Debug", "type", [("name", "identbool", False)]),
        ("Debug", "type", [("named_field", "bool", False)]),
        ("Debug", "type", [("name", "identbool", "Other"), ("named_field", "bool", False)]),
        ("Debug", "type", [("bound", "bound", ("custom", ["G: ::core::fmt::Debug"]))]),
        ("Debug", "type", [("bound", "bound", ("none",))]),
        ("Debug", "type", [("bound", "bound", ("all",))]),
        ("Hash", "type", [("bound", "bound", ("all",))]),
        ("Debug", "type", [("bound", "bound", ("custom", []))]),
        ("Ord", "field", [("rank", "int", -16)]),
        ("PartialOrd", "field", [("rank", "int", 4096), ("method", "path", "::verif_rt::pcmp_rev")]),
        ("Clone", "type", [("bound", "bound", ("custom", ["G: ::core::clone::Clone", "G: 'static"]))]),
        ("Default", "type", [("new", "flagbool", True)]),
        ("Default", "type", [("new", "flagbool", True), ("bound", "bound", ("none",))]),
        ("Default", "type", [("expression", "expr", "mk()"), ("new", "flagbool", True)]),
        ("Debug", "variant", [("name", "identbool", "Other")]),
        ("Debug", "variant", [("name", "identbool", False)]),
        ("Debug", "variant", [("named_field", "bool", True), ("name", "identbool", "Q")]),
        ("Into", "type", [("type", "type", "u8"), ("bound", "bound", ("custom", ["G: ::core::convert::Into<u8>"]))]),
        # what a predicate or a path may contain: every spelling has to take it or every spelling has to refuse it
        ("Debug", "type", [("bound", "bound", ("custom", ["*const G: ::core::marker::Send"]))]),
        ("Debug", "type", [("bound", "bound", ("custom", ["*mut G: ::core::marker::Send", "G: 'static"]))]),
        ("Clone", "type", [("bound", "bound", ("custom", ["&'static G: ::core::marker::Send"]))]),
        ("Clone", "type", [("bound", "bound", ("custom", ["[G; 2]: ::core::clone::Clone", "(G, u8): ::core::marker::Send"]))]),
        ("Hash", "type", [("bound", "bound", ("custom", ["fn(G) -> G: ::core::marker::Send"]))]),
        ("Hash", "type", [("bound", "bound", ("custom", ["for<'x> &'x G: ::core::hash::Hash"]))]),
        ("PartialEq", "type", [("bound", "bound", ("custom", ["<G as ::core::iter::Iterator>::Item: ::core::cmp::PartialEq"]))]),
        ("PartialEq", "type", [("bound", "bound", ("custom", ["G: ?::core::marker::Sized + ::core::cmp::PartialEq"]))]),
        ("Default", "type", [("bound", "bound", ("custom", ["::std::vec::Vec<G>: ::core::default::Default + 'static"]))]),
        ("Debug", "field", [("method", "path", "::verif_rt::fmt_alt::<G>")]),
        ("Debug", "field", [("method", "path", "<G as ::verif_rt::Tr>::f")]),
        ("Hash", "field", [("method", "path", "<G>::f")]),
        ("Clone", "field", [("method", "path", "self::f")]),
        ("PartialEq", "field", [("method", "path", "crate::m::f")]),
        ("Ord", "field", [("method", "path", "super::f")]),
        ("Into", "field", [("type", "type", "u8"), ("method", "path", "::verif_rt::into_u8_alt")]),
    ]
    for trait, level, params in specs:
        spellings = A.entry_spellings(trait, params, level, limit=48)
        if level == "field":
            tl = trait if trait != "Into" else "Into(u8)"
            tmpl = "#[derive(Educe)]\n#[educe(%s)]\nstruct S<G> {\n    #[educe(%%s)]\n    a: G,\n    b: u8,\n}\n" % tl
            tmpl_e = "#[derive(Educe)]\n#[educe(%s)]\nenum E<G> {\n    V(u16, #[educe(%%s)] G),\n    W { #[educe(%%s)] x: G, y: u16 },\n}\n" % tl
            if trait == "Debug" and any(p[0] == "name" for p in params):
                tmpl_e = "#[derive(Educe)]\n#[educe(%s)]\nenum E<G> {\n    V(u16, G),\n    W { #[educe(%%s)] x: G, y: u16 },\n}\n" % tl
            if trait == "Default":
                tmpl_e = "#[derive(Educe)]\n#[educe(%s)]\nenum E<G> {\n    V(u16, G),\n    #[educe(Default)] W { #[educe(%%s)] x: G, y: u16 },\n}\n" % tl
            # the delimiter of the attribute's argument list is free as well
            alt = [(tmpl.replace("#[educe(%s)]", d)) % s for s in spellings[:2] for d in ("#[educe[%s]]", "#[educe{%s}]")]
            alt_e = [tmpl_e.replace("#[educe(%s)]", d).replace("%s", s) for s in spellings[:2] for d in ("#[educe[%s]]", "#[educe{%s}]")]
            out.append(("%s/field/struct" % trait, [tmpl % s for s in spellings] + alt))
            out.append(("%s/field/enum" % trait, [tmpl_e.replace("%s", s) for s in spellings] + alt_e))
        elif level == "type":
            if trait == "Default" and any(p[0] == "expression" for p in params):
                body = "struct S<G>(G, u8);\n"
            else:
                body = "struct S<G> {\n    a: G,\n    b: u8,\n}\n"
            out.append(("%s/type/struct" % trait, ["#[derive(Educe)]\n#[educe(%s)]\n%s" % (s, body) for s in spellings] +
                        ["#[derive(Educe)]\n#[educe%s%s%s]\n%s" % (o, s, c, body) for s in spellings[:2] for o, c in ("[]", "{}")]))
            if not any(p[0] == "named_field" for p in params):
                ebody = "enum E<G> {\n    #[educe(Default)]\n    V(u8, G),\n    W { x: G },\n}\n" \
                    if trait == "Default" and not any(p[0] == "expression" for p in params) \
                    else "enum E<G> {\n    V(u8, G),\n    W { x: G },\n}\n"
                out.append(("%s/type/enum" % trait, ["#[derive(Educe)]\n#[educe(%s)]\n%s" % (s, ebody) for s in spellings]))
        else:
            out.append(("%s/variant" % trait, [
                "#[derive(Educe)]\n#[educe(Debug)]\nenum E<G> {\n    #[educe(%s)]\n    V(u8, G),\n    W { x: G },\n}\n" % s
                for s in spellings] + [
                "#[derive(Educe)]\n#[educe(Debug)]\nenum E<G> {\n    #[educe%s%s%s]\n    V(u8, G),\n    W { x: G },\n}\n" % (o, s, c)
                for s in spellings[:2] for o, c in ("[]", "{}")]))
    return out


def items_ms(res):
    return collections.Counter((it.get("hdr", ""), it.get("body") or "") for it in res.get("items", []))


def judge_group(chk, gid, texts, results, desc=None, refusal_ok=False):
    if any(r is None or r.get("st") in ("harness", "crash", "timeout") for r in results):
        chk.inconc("runner")
        return
    ok = [i for i, r in enumerate(results) if r["st"] == "ok"]
    if not ok and refusal_ok:
        # every spelling of the entry is refused: that is interchangeable as well
        chk.evaluations += len(texts) - 1
        chk.held(digest("\n".join(sorted(set(texts)))), len(set(texts)) >= 2, 0)
        chk.count("all-refused:" + gid.split("#")[0])
        return
    if not ok:
        # no spelling is accepted: nothing to compare (the request itself is the generator's or C01's problem)
        chk.inconc("no-member-accepted")
        log("C14: no member of the group accepted (%s): %s\n%s" % (gid, results[0].get("msg"), texts[0]))
        return
    b = ok[0]
    base = results[b]
    ref = items_ms(base)
    distinct = len(set(texts))
    for i, (text, r) in enumerate(zip(texts, results)):
        if i == b or text == texts[b]:
            continue
        chk.evaluations += 1
        if r["st"] != "ok":
            chk.violation("spelling-refused|%s" % (r.get("msg", "")[:60]),
                          "one spelling is accepted, an equivalent one is refused (%s): %s\n--- accepted:\n%s\n--- refused:\n%s"
                          % (r["st"], r.get("msg"), texts[b], text), {"a.rs": texts[b], "b.rs": text})
            return
        got = items_ms(r)
        if got != ref:
            diff_a = list((ref - got).elements())[:2]
            diff_b = list((got - ref).elements())[:2]
            chk.violation("spelling-differs|%s" % gid.split("#")[0],
                          "equivalent spellings expand differently\n--- A:\n%s\n--- B:\n%s\n--- only in A: %s\n--- only in B: %s"
                          % (texts[b], text, diff_a, diff_b),
                          {"a.rs": texts[b], "b.rs": text, "a.out": base.get("out", ""), "b.out": r.get("out", "")})
            return
    chk.held(digest("\n".join(sorted(set(texts)))), distinct >= 2, 0)
    chk.count(gid.split("#")[0] if "#" in gid else "random")
    if distinct >= 2:
        chk.sample({"group": gid, "members": sorted(set(texts))[:3], "items": len(base.get("items", []))}, limit=4)


def main(tier, seed, scale=1.0):
    chk = Check(PROP, tier, seed)
    n = int((1500 if tier == "quick" else 30000) * scale)
    members = 5
    chk.rule = ("groups of %d renderings of one semantic request (random documented spellings, attribute "
                "layouts, trait and parameter orders) plus systematic single-entry groups enumerating every "
                "spelling; items compared as multisets of token strings; non-trivial = group with >= 2 "
                "distinct texts; distinct by the set of texts" % members)
    chk.assumptions = ["in-process expansion (proc-macro2 fallback) is the observation point named by the property"]
    # systematic groups
    sys_groups = single_param_groups(seed, n)
    feed, index = [], []
    for gi, (gid, texts) in enumerate(sys_groups):
        for mi, t in enumerate(texts):
            feed.append(("s%d_%d" % (gi, mi), t))
    res = B.run_inproc(feed, items=True)
    for gi, (gid, texts) in enumerate(sys_groups):
        judge_group(chk, gid + "#sys", texts, [res.get("s%d_%d" % (gi, mi)) for mi in range(len(texts))], refusal_ok=True)
    # random groups
    batch = 1500
    for k0 in range(0, n, batch):
        groups = []
        feed = []
        for k in range(k0, min(n, k0 + batch)):
            td, texts = gen_group(seed, k, members)
            groups.append((k, td, texts))
            for mi, t in enumerate(texts):
                feed.append(("g%d_%d" % (k, mi), t))
        res = B.run_inproc(feed, items=True)
        for k, td, texts in groups:
            judge_group(chk, "g%d" % k, texts, [res.get("g%d_%d" % (k, mi)) for mi in range(len(texts))])
    return chk.finish()
