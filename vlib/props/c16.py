"""C16 — expansion is deterministic: same input => same token stream, within a process (repeats),
across freshly spawned processes (fresh hash-map keys) and across rustc runs (thorough)."""
import concurrent.futures as cf
import json
import os

from .. import build as B
from .. import gen as G
from .. import shapes as S
from .. import unions as U
from ..common import NCPU, WORK, Check, digest, log, rng_for, run, base_env, write

PROP = "C16"


def corpus(seed, n):
    cases = []
    for k in range(n):
        rng = rng_for(seed, PROP, "case", k)
        r = rng.random()
        if r < 0.05:
            td = U.random_union(rng)
        else:
            ts = G.random_trait_set(rng)
            if r < 0.6 and "Into" not in ts:
                ts.append("Into")
            td = G.random_type(rng, ts, G.Opts(max_fields=5))
        text = S.render(td, rng_for(seed, PROP, "spell", k), extras=False).replace("::educe::Educe", "Educe")
        cases.append(("c%d" % k, td, text))
    # hand-made stress inputs for whatever iterates a map: many Into targets, also refused ones
    many = ", ".join("Into(%s)" % t for t in ["u8", "u16", "u32", "u64", "u128", "i8", "i16", "i32", "i64"])
    fields = "\n".join("    f%d: %s," % (i, t) for i, t in
                       enumerate(["u8", "u16", "u32", "u64", "u128", "i8", "i16", "i32", "i64"]))
    cases.append(("into9", None, "#[derive(Educe)]\n#[educe(%s)]\nstruct S {\n%s\n}\n" % (many, fields)))
    cases.append(("into9e", None, "#[derive(Educe)]\n#[educe(%s)]\nenum E { A {\n%s\n}, B {\n%s\n} }\n" %
                  (many, fields, fields)))
    cases.append(("into_refused", None,
                  "#[derive(Educe)]\n#[educe(Into(u8))]\nstruct S { #[educe(Into(u16), Into(u32), Into(u64), "
                  "Into(i8), Into(i16))] a: u8, b: u16 }\n"))
    cases.append(("into_amb", None,
                  "#[derive(Educe)]\n#[educe(Into(u8), Into(u16), Into(u32), Into(i64))]\nstruct S { a: u8, b: u8, "
                  "c: u16, d: u16, e: u32, f: u32, g: i64, h: i64 }\n"))
    # families whose members spell a field type identically although it depends on a parameter in one item only: any
    # state kept between expansions (caches keyed by spelling, counters) shows when the order of expansion changes
    many = "Debug, Clone, PartialEq, Hash, Default"
    fam = [
        ("famA", "#[derive(Educe)]\n#[educe(%s)]\nstruct Page<Item> { items: Vec<Item>, n: [u8; 4] }\n" % many),
        ("famB", "#[derive(Educe)]\n#[educe(%s)]\nstruct Cart<K> { items: Vec<Item>, key: K, n: [u8; 4] }\n" % many),
        ("famC", "#[derive(Educe)]\n#[educe(%s)]\nstruct Buf<const N: usize> { data: [u8; N], tag: Option<Item> }\n" % many),
        ("famD", "#[derive(Educe)]\n#[educe(%s)]\nstruct Fixed<T> { data: [u8; N], tag: Option<T>, v: Vec<Item> }\n" % many),
        ("famE", "#[derive(Educe)]\n#[educe(%s)]\nenum Either<Item, N> { L(Item, [u8; 4]), R { n: N, t: Option<Item> } }\n" % many),
        ("famF", "#[derive(Educe)]\n#[educe(Debug)]\nstruct M1<T> { #[educe(Debug(method(m)))] a: T, b: Item }\n"),
        ("famG", "#[derive(Educe)]\n#[educe(Debug)]\nstruct M2<Item> { #[educe(Debug(method(m)))] a: Item, b: T }\n"),
    ]
    for cid, text in fam:
        cases.append((cid, None, text))
    # every candidate name a helper could take, up to eight lengthenings, inside the trait's own attributes: whatever name
    # is chosen in the end, it is the same in every process
    for base, suf, attr, tr in (("Educe__DebugField", "_", "Debug(method = \"%s::f\")", "Debug"), ("Educe__RawString", "_", "Debug(method = \"%s::f\")", "Debug(name = false)"),
                                ("H", "H", "Hash(method = \"%s::f\")", "Hash")):
        for depth in (7, 8, 9, 12):
            chain = "::".join(base + suf * i for i in range(depth))
            cases.append(("chain_%s_%d" % (base, depth), None, "#[derive(Educe)]\n#[educe(%s)]\nstruct S { #[educe(%s)] a: u8, b: u8 }\n" % (tr, attr % chain)))
    # refused requests with several independent problems: which one is reported must not depend on the process either
    six = "Debug, Clone, PartialEq, Hash, Default, PartialOrd"
    refused = [
        ("dup6", "#[derive(Educe)]\n#[educe(%s)]\n#[educe(%s)]\nstruct S { a: u8 }\n" % (six, six)),
        ("dup6b", "#[derive(Educe)]\n#[educe(%s, %s)]\nenum E { A(u8), B }\n" % (six, six)),
        ("dup_unknown", "#[derive(Educe)]\n#[educe(Debug, Clone, Hash)]\n#[educe(Hash, Clone, Debug, Foo, Bar)]\nstruct S { a: u8 }\n"),
        ("fields_bad", "#[derive(Educe)]\n#[educe(Debug, Clone, PartialEq, Hash)]\nstruct S { #[educe(Debug(foo), Clone(bar), PartialEq(baz), "
                       "Hash(qux))] a: u8, #[educe(Hash(x), PartialEq(y), Clone(z), Debug(w))] b: u8 }\n"),
        ("into_many_bad", "#[derive(Educe)]\n#[educe(Into(u8), Into(u16), Into(u32), Into(u64), Into(i8), Into(i16))]\n"
                          "struct S { a: u8, b: u8, c: u16, d: u16, e: u32, f: u32, g: u64, h: u64, i: i8, j: i8, k: i16, l: i16 }\n"),
        ("ranks_bad", "#[derive(Educe)]\n#[educe(PartialEq, PartialOrd)]\nstruct S { #[educe(PartialOrd(rank = 1))] a: u8, "
                      "#[educe(PartialOrd(rank = 1))] b: u8, #[educe(PartialOrd(rank = 2))] c: u8, #[educe(PartialOrd(rank = 2))] d: u8 }\n"),
        ("traits_not_used", "#[derive(Educe)]\n#[educe(Debug)]\nstruct S { #[educe(Clone(method(m)), Hash(ignore), PartialEq(ignore), "
                            "Default = 1, PartialOrd(rank = 1))] a: u8 }\n"),
    ]
    for cid, text in refused:
        cases.append((cid, None, text))
    # degenerate shapes (code that can never run still has to be the same code)
    k = 0
    for shape in ["enum Never {}", "enum One { A }", "struct Unit;", "struct Empty {}", "struct EmptyT();", "enum E { A {}, B() }",
                  "enum G<T> {}", "struct P<T>(::core::marker::PhantomData<T>);"]:
        for ts in ["Debug(name = true)", "Clone", "Clone, Copy", "PartialEq", "PartialEq, Eq", "PartialEq, PartialOrd", "PartialEq, Eq, PartialOrd, Ord",
                   "Hash", "Default", "Debug(name = true), Clone, PartialEq, Eq, PartialOrd, Ord, Hash"]:
            if "Default" in ts and "enum" in shape and "One" not in shape:
                continue
            cases.append(("deg%d" % k, None, "#[derive(Educe)]\n#[educe(%s)]\n%s\n" % (ts, shape)))
            k += 1
    # and the refused requests of C13's generator (one injected problem each)
    from . import c13
    for k in range(n // 8):
        g = c13.gen_case(seed, k)
        if g is not None:
            cases.append(("bad%d" % k, None, g[2].replace("::educe::Educe", "Educe")))
    return cases


def main(tier, seed, scale=1.0):
    chk = Check(PROP, tier, seed)
    n = int((500 if tier == "quick" else 6000) * scale)
    procs = 8 if tier == "quick" else 32
    repeat = 3
    cases = corpus(seed, n)
    exe = B.build_inproc("release")
    os.makedirs(os.path.join(WORK, "tmp"), exist_ok=True)
    feed = [(cid, text) for cid, td, text in cases]

    def one(p):
        # every process expands the corpus in its own order: what was expanded before must not matter
        order = list(feed)
        if p % 2 == 1:
            rng_for(seed, PROP, "order", p).shuffle(order)
        elif p % 4 == 2:
            order.reverse()
        return B._run_chunk(exe, order, repeat, False, 600)

    with cf.ThreadPoolExecutor(max_workers=min(NCPU, procs)) as ex:
        runs = list(ex.map(one, range(procs)))
    # "nothing but the input tokens and the enabled features": the profile educe itself was compiled with (debug
    # assertions on / off) is not an input either
    exe_dbg = B.build_inproc("debug")
    dbg = B._run_chunk(exe_dbg, list(feed), 1, False, 900)
    chk.rule = ("random derive requests biased towards several Into targets and many traits, each "
                "expanded %d times in each of %d fresh processes (each process in its own order of expansion); non-trivial = accepted request whose "
                "expansion has >= 2 impl items; distinct by source text" % (repeat, procs))
    texts = {cid: text for cid, td, text in cases}
    distinct_outputs = 0
    for cid, td, text in cases:
        outs = []
        unstable = None
        bad = False
        for r in runs:
            o = r.get(cid)
            if o is None or o.get("st") in ("harness", "crash", "timeout", "panic"):
                chk.inconc("runner-" + (o or {}).get("st", "missing"))
                bad = True
                break
            if not o.get("stable", True):
                unstable = o
            outs.append((o["st"], o.get("out") if o["st"] == "ok" else o.get("msg")))
        if bad:
            continue
        chk.evaluations += repeat * procs
        if unstable is not None:
            chk.violation("nondeterministic|in-process", "two expansions of the same input in ONE process differ\n"
                          "input:\n%s\nsecond output: %s" % (text, unstable.get("msg", "")[:1500]),
                          {"input.rs": text})
            continue
        if len(set(outs)) > 1:
            a, b = sorted(set(outs))[:2]
            chk.violation("nondeterministic|cross-process",
                          "expansions of the same input in different processes differ\ninput:\n%s\nA: %s\nB: %s" %
                          (text, a[1][:1500], b[1][:1500]), {"input.rs": text, "a.txt": a[1], "b.txt": b[1]})
            continue
        st, out = outs[0]
        o = dbg.get(cid)
        if o is None or o.get("st") in ("harness", "crash", "timeout", "panic"):
            chk.inconc("debug-runner-" + (o or {}).get("st", "missing"))
            continue
        dv = (o["st"], o.get("out") if o["st"] == "ok" else o.get("msg"))
        chk.evaluations += 1
        if dv != (st, out):
            chk.violation("nondeterministic|build-profile", "the expansion differs between a debug build and a release build of educe\n"
                          "input:\n%s\nrelease: %s\ndebug:   %s" % (text, (out or "")[:1500], (dv[1] or "")[:1500]),
                          {"input.rs": text, "release.txt": out or "", "debug.txt": dv[1] or ""})
            continue
        nontrivial = st == "ok" and out.count("impl ") >= 2
        chk.held(digest(text), nontrivial, 0)
        chk.count(st)
        if nontrivial:
            chk.sample({"case": cid, "input": text, "processes": procs, "repeats": repeat,
                        "output_sha": digest(out)}, limit=4)
    ref = {}
    for cid, td, text in cases:
        o = runs[0].get(cid)
        if o is not None and o.get("st") in ("ok", "err"):
            ref[cid] = (o["st"], o.get("out") if o["st"] == "ok" else o.get("msg"))
    environment(chk, seed, exe, [(cid, text) for cid, text in feed if cid in ref], ref)
    offsets_and_comments(chk, seed)
    printer_and_toolchain(chk, seed)
    chk.extra["processes"] = procs
    chk.extra["repeats_per_process"] = repeat
    if tier == "thorough":
        unpretty_pairs(chk, seed, cases)
    return chk.finish()


# what a build system puts into the compiler's environment (and a few things a shell may export): two assignments each
HOSTILE_ENV = {
    "OPT_LEVEL": ("0", "3"), "PROFILE": ("debug", "release"), "DEBUG": ("true", "false"), "NUM_JOBS": ("1", "64"),
    "CARGO_PKG_RUST_VERSION": ("1.80", "1.56.1"), "CARGO_PKG_VERSION": ("9.9.9", "0.0.1-alpha"), "CARGO_PKG_NAME": ("x", "educe"),
    "CARGO_CRATE_NAME": ("x", "educe"), "CARGO_MANIFEST_DIR": ("/nonexistent", "/"), "CARGO_PKG_VERSION_MAJOR": ("9", "0"),
    "TARGET": ("x86_64-unknown-linux-gnu", "wasm32-unknown-unknown"), "HOST": ("x86_64-unknown-linux-gnu", "aarch64-apple-darwin"),
    "RUSTC": ("rustc", "/nonexistent/rustc"), "RUSTFLAGS": ("-Copt-level=0", "-Cdebug-assertions=on"),
    "CARGO_ENCODED_RUSTFLAGS": ("-Copt-level=0", "--cfg\x1fx"), "CARGO_CFG_TARGET_OS": ("none", "linux"),
    "CARGO_CFG_DEBUG_ASSERTIONS": ("", "1"), "CARGO_CFG_TARGET_POINTER_WIDTH": ("16", "64"), "CARGO_FEATURE_DEFAULT": ("1", ""),
    "CARGO_FEATURE_FULL": ("1", ""), "CARGO_PRIMARY_PACKAGE": ("1", ""), "RUSTC_BOOTSTRAP": ("1", "0"), "RUST_LOG": ("trace", "off"),
    "LANG": ("tr_TR.UTF-8", "C"), "LC_ALL": ("tr_TR.UTF-8", "C"), "TZ": ("Pacific/Kiritimati", "UTC"), "SOURCE_DATE_EPOCH": ("0", "4102444800"),
    "HOME": ("/nonexistent", "/"), "USER": ("nobody", "root"), "CI": ("true", ""), "DOCS_RS": ("1", ""), "OUT_DIR": ("/nonexistent", "/tmp"),
    "TERM": ("dumb", "xterm-256color"), "NO_COLOR": ("1", ""), "RUST_MIN_STACK": ("16777216", "8388608"), "EDUCE": ("1", "0"),
}
ENV_ALLOW = {"RUST_BACKTRACE", "RUST_LIB_BACKTRACE", "VERIF_ENVLOG"}   # read by std's panic machinery / by the shim


def environment(chk, seed, exe, feed, ref):
    """"nothing but the input tokens": not the compiler's environment either.  (1) an LD_PRELOAD shim logs every getenv of
    the expanding process: the names read while expanding (beyond those an empty run reads) are suspects; (2) the corpus is
    expanded again under two hostile environments (everything a build script sees, set to odd values) and once per
    suspect with that variable alone set to a range of values: every output has to be the one of the plain run."""
    tmp = os.path.join(WORK, "envmon")
    os.makedirs(tmp, exist_ok=True)
    so = os.path.join(tmp, "envmon.so")
    src = os.path.join(os.path.dirname(os.path.dirname(os.path.dirname(os.path.abspath(__file__)))), "tools", "envmon", "envmon.c")
    rc, out, err, _ = run(["clang", "-shared", "-fPIC", "-O1", "-o", so, src, "-ldl"], timeout=120)
    suspects = set()
    if rc != 0:
        chk.inconc("env-monitor-not-built")
        log("C16: cannot build the getenv shim: %s" % err[-400:])
    else:
        seen = []
        for which, cases in (("idle", feed[:1]), ("corpus", feed)):
            lg = os.path.join(tmp, "getenv.%s.log" % which)
            if os.path.exists(lg):
                os.unlink(lg)
            r = B._run_chunk(exe, list(cases), 1, False, 900, env=base_env({"LD_PRELOAD": so, "VERIF_ENVLOG": lg}))
            names = set(open(lg).read().split()) if os.path.exists(lg) else None
            seen.append(names)
            if which == "corpus":
                for cid, text in feed:
                    o = r.get(cid)
                    if o and o.get("st") in ("ok", "err") and (o["st"], o.get("out") if o["st"] == "ok" else o.get("msg")) != ref.get(cid):
                        chk.violation("nondeterministic|environment|LD_PRELOAD", "the expansion changes when a library is preloaded?\n%s" % text,
                                      {"input.rs": text})
                        break
        if seen[0] is None or seen[1] is None:
            chk.inconc("env-monitor-silent")
        else:
            suspects = seen[1] - seen[0] - ENV_ALLOW
            chk.extra["getenv_names_idle"] = sorted(seen[0])[:40]
            chk.extra["getenv_names_while_expanding"] = sorted(seen[1] - seen[0])[:40]
    plans = [("hostile-A", {k: v[0] for k, v in HOSTILE_ENV.items()}), ("hostile-B", {k: v[1] for k, v in HOSTILE_ENV.items()})]
    for name in sorted(suspects):
        for val in ("", "0", "1", "3", "s", "1.60", "1.76", "1.80.0", "99.99.99", "true", "false", "debug", "release", "x y"):
            plans.append(("suspect %s=%r" % (name, val), {name: val}))
    # the command line of the expanding process is not an input either (a compiler is started with `--crate-type`,
    # `--edition`, `-C opt-level`, `--cfg ..`, `--test`)
    argvs = {"argv-cdylib": ["--crate-type", "cdylib", "--crate-name", "x", "--edition", "2015", "-C", "opt-level=0", "--cfg", "debug_assertions", "--test"],
             "argv-staticlib": ["--crate-type", "lib", "--crate-type", "staticlib", "-C", "opt-level=3", "--edition=2024", "-C", "panic=abort"],
             "argv-proc-macro": ["--crate-type", "proc-macro", "--target", "wasm32-unknown-unknown", "-O"]}
    for name in argvs:
        plans.append((name, {}))
    chk.extra["environments_tried"] = len(plans)

    def one(plan):
        return plan[0], plan[1], B._run_chunk(exe, list(feed), 1, False, 900, env=base_env(plan[1]), pre_args=argvs.get(plan[0], ()))
    with cf.ThreadPoolExecutor(max_workers=min(NCPU, len(plans))) as ex:
        results = list(ex.map(one, plans))
    reported = set()
    for pname, penv, r in results:
        for cid, text in feed:
            o = r.get(cid)
            if o is None or o.get("st") in ("harness", "crash", "timeout", "panic"):
                chk.inconc("env-runner-" + (o or {}).get("st", "missing"))
                continue
            chk.evaluations += 1
            got = (o["st"], o.get("out") if o["st"] == "ok" else o.get("msg"))
            if got != ref.get(cid):
                culprit = pname
                if pname.startswith("hostile") and cid not in reported:
                    # narrow down to one variable (for the report only)
                    for k, v in penv.items():
                        o1 = B._run_chunk(exe, [(cid, text)], 1, False, 300, env=base_env({k: v})).get(cid) or {}
                        if (o1.get("st"), o1.get("out") if o1.get("st") == "ok" else o1.get("msg")) != ref.get(cid):
                            culprit = "%s=%s" % (k, v)
                            break
                if cid in reported:
                    continue
                reported.add(cid)
                chk.violation("nondeterministic|environment|%s" % culprit.split("=")[0].replace("suspect ", ""),
                              "the expansion depends on the environment of the expanding process (%s)\ninput:\n%s\nplain: %s\nthere: %s"
                              % (culprit, text, (ref[cid][1] or "")[:1200], (got[1] or "")[:1200]),
                              {"input.rs": text, "plain.txt": ref[cid][1] or "", "other.txt": got[1] or ""})
    if suspects:
        chk.count("environment-variables-read:" + ",".join(sorted(suspects))[:80])


OFFSET_INPUTS = [
    "#[derive(Educe)]\n#[educe(Into(u8), Into(u16), Into(String), Into(u64))]\npub struct A {\n    pub a: u8,\n    pub b: u16,\n    pub c: String,\n    pub d: u64,\n}\n",
    "#[derive(Educe)]\n#[educe(Debug, Clone, PartialEq, Hash)]\npub struct B<T> {\n    #[educe(Debug(method(m)))]\n    pub a: T,\n    pub b: u8,\n}\n",
    "#[derive(Educe)]\n#[educe(Debug(name = true), PartialEq, Eq, PartialOrd, Ord, Hash, Default)]\npub enum C {\n    #[educe(Default)]\n    V(u8, #[educe(Debug(method(m)))] u16),\n    W {\n        x: u8,\n    },\n    U,\n}\n",
    "#[derive(Educe)]\n#[educe(Debug(unsafe), PartialEq(unsafe), Eq, Hash(unsafe), Clone, Copy, Default)]\npub union D {\n    #[educe(Default)]\n    pub a: u32,\n    pub b: [u8; 4],\n}\n",
    "#[derive(Educe)]\n#[educe(Into(u16), Into(u8), Deref, DerefMut)]\npub enum E {\n    V(#[educe(Deref, DerefMut, Into(u8))] u8, #[educe(Into(u16))] u16),\n    W {\n        #[educe(Deref, DerefMut, Into(u8))]\n        x: u8,\n        #[educe(Into(u16))]\n        y: u16,\n    },\n}\n",
]


def offsets_and_comments(chk, seed):
    """The same tokens at different byte offsets of one file, with different comments and spacing in and around them, have
    to expand to the same items (through rustc and the real entry point: spans have source text and positions there)."""
    from .. import unpretty as UP
    rng = rng_for(seed, PROP, "offsets")
    copies = 7
    noise = ["// Educe__DebugField H HH state f builder other source _0 __0 arg", "/* Educe__DebugField_ */", "//", "// x" * 40]
    parts = ["#![allow(dead_code, unused)]\nuse educe::Educe;\n"
             "pub fn m<T>(_: &T, f: &mut ::core::fmt::Formatter<'_>) -> ::core::fmt::Result { f.write_str(\"m\") }\n"]
    for c in range(copies):
        # padding so that the copies straddle different powers of ten of the byte offset
        parts.append("".join("// %s\n" % ("p" * rng.randint(0, 90)) for _ in range(rng.choice([0, 1, 3, 9, 25]))))
        items = []
        for t in OFFSET_INPUTS:
            if c % 2 == 1:
                # comments inside the parentheses of the attributes themselves (the names in them are names of helpers)
                t = t.replace("method(m)", "method(m /* Educe__DebugField Educe__RawString H HH */)").replace("Hash(unsafe)", "Hash(unsafe /* H */)")
                # comments and blank lines between the tokens of the item (never inside a token)
                lines = t.split("\n")
                t = "\n".join(l + ("  " + rng.choice(noise) if l.strip() and rng.random() < 0.5 else "") + ("\n" if rng.random() < 0.2 else "")
                              for l in lines)
            items.append(t)
        head = "pub mod copy_%d {\nuse super::*;\n" % c
        boundary = {2: 10000, 4: 100000}.get(c)
        if boundary:
            # a power of ten of the byte offset falls exactly between two Into targets of one attribute
            here = len("".join(parts)) + len(head) + items[0].index("Into(u16)") + 5
            pad = boundary - here
            while pad >= 3:
                k = min(pad, 100)
                if pad - k in (1, 2):
                    k -= 3
                parts.append("//" + "p" * (k - 3) + "\n")
                pad -= k
        parts.append(head + "".join(items) + "}\n")
    src = "".join(parts)
    text = UP.expand("c16u", src)
    mods = UP.modules(text)
    import re as _re

    def norm(b):
        # the pretty-printer re-inserts the comments of the original item: they are not part of the expansion
        b = _re.sub(r"/\*.*?\*/", "", b, flags=_re.S)
        b = _re.sub(r"//[^\n]*", "", b)
        return " ".join(b.split())
    if "copy_0" not in mods or len([m for m in mods if m.startswith("copy_")]) != copies:
        chk.inconc("unpretty-output-not-understood")
        return
    ref = norm(mods["copy_0"])
    if ref.count("impl") < 10:
        chk.inconc("unpretty-output-not-understood")
        return
    for c in range(1, copies):
        chk.evaluations += 1
        got = norm(mods["copy_%d" % c])
        if got != ref:
            chk.violation("nondeterministic|source-position-or-comments", "identical tokens at another byte offset / with other comments expand "
                          "differently (copy_0 vs copy_%d of the same items in one file)" % c,
                          {"crate.rs": src, "copy_0.txt": ref, "copy_%d.txt" % c: got})
            return
    chk.count("offset-copies-equal", copies - 1)
    chk.held("offsets:" + digest(src), True, 0)


PRINTER_INPUTS = [
    # literal defaults on types whose printed spelling differs between rustc's token printer and proc-macro2's fallback
    # (`[u8; 4]` vs `[u8 ; 4]`, `&'static str` vs `& 'static str`): whether the literal is converted is decided by the TYPE
    "#[derive(Educe)]\n#[educe(Default)]\npub struct A {\n    #[educe(Default = b\"abcd\")]\n    pub tag: &'static [u8; 4],\n    #[educe(Default = \"x\")]\n    pub s: &'static str,\n"
    "    #[educe(Default = 7)]\n    pub n: u64,\n    #[educe(Default = 1.5)]\n    pub f: f32,\n    #[educe(Default = 'c')]\n    pub c: char,\n    #[educe(Default = \"y\")]\n    pub o: ::std::string::String,\n}\n",
    "#[derive(Educe)]\n#[educe(Default)]\npub enum B {\n    #[educe(Default)]\n    V(#[educe(Default = b\"ab\")] &'static [u8; 2], #[educe(Default = 3)] i128, #[educe(Default = 2)] ::core::option::Option<u8>),\n    W,\n}\n",
    "#[derive(Educe)]\n#[educe(Default)]\npub union C {\n    #[educe(Default = b\"abc\")]\n    pub a: &'static [u8; 3],\n    pub b: usize,\n}\n",
]


def printer_and_toolchain(chk, seed):
    """(1) the same request through rustc (real entry point, rustc's token printer) and in-process (proc-macro2's fallback
    printer) converts the same literals: the number of `Into::into` calls per item agrees; (2) the same crate under the
    stable and the nightly toolchain (where `Span` has more capabilities) draws the same diagnostics: none."""
    from .. import unpretty as UP
    import re as _re
    src = "#![allow(dead_code, unused)]\nuse educe::Educe;\n" + "".join("pub mod p%d {\nuse super::*;\n%s}\n" % (i, t) for i, t in enumerate(PRINTER_INPUTS))
    try:
        text = UP.expand("c16p", src)
    except Exception as e:
        chk.inconc("printer-unpretty-failed")
        log("C16: %s" % e)
        text = None
    if text is not None:
        mods = UP.modules(text)
        res = B.run_inproc([("pr%d" % i, t) for i, t in enumerate(PRINTER_INPUTS)], items=False)
        for i, t in enumerate(PRINTER_INPUTS):
            r = res.get("pr%d" % i) or {}
            body = mods.get("p%d" % i)
            if r.get("st") != "ok" or body is None:
                chk.inconc("printer-not-expanded")
                continue
            a = len(_re.findall(r"Into\s*::\s*into", body))
            b = len(_re.findall(r"Into\s*::\s*into", r.get("out", "")))
            chk.evaluations += 1
            if a != b:
                chk.violation("nondeterministic|token-printer", "through rustc the expansion converts %d literals with Into::into, in-process %d: a decision "
                              "is taken on the PRINTED form of a type\n%s" % (a, b, t), {"input.rs": t, "rustc.txt": body, "inproc.txt": r.get("out", "")})
            else:
                chk.held("printer:%d" % i, True, 1)
                chk.count("printer-parity")
    # stable vs nightly
    crate = ("#![deny(warnings)]\n#![allow(dead_code)]\nuse educe::Educe;\n"
             "#[derive(Educe)]\n#[educe(Default(new), Debug, Clone, PartialEq, Hash, PartialOrd)]\npub struct A {\n    #[deprecated]\n    #[educe(Default = 5)]\n    pub x: u8,\n    #[deprecated]\n    pub y: u8,\n}\n"
             "#[derive(Educe)]\n#[educe(Default, Debug, Clone)]\npub enum B {\n    #[educe(Default)]\n    V {\n        #[deprecated]\n        #[educe(Default = 5)]\n        x: u8,\n    },\n    W,\n}\n"
             "#[derive(Educe)]\n#[educe(Default, Clone, Copy)]\npub union C {\n    #[deprecated]\n    #[educe(Default = 5)]\n    pub x: u8,\n    pub y: u16,\n}\nfn main() {}\n")
    B.setup_d1("c16t", {"x": crate}, rt=False)
    d = B.d1_dir("c16t")
    verdicts = {}
    for tc in ("stable", "nightly"):
        cmd = ["cargo"] + (["+nightly"] if tc == "nightly" else []) + ["check", "--offline", "--bin", "x", "--message-format=short"]
        rc, out, err, wall = run(cmd, cwd=d, env=base_env({"CARGO_TARGET_DIR": os.path.join(WORK, "tgt", "c16t-" + tc)}), timeout=900)
        verdicts[tc] = (rc == 0, "\n".join(l for l in err.splitlines() if "error" in l or "warning" in l)[:600])
    chk.evaluations += 1
    if verdicts["stable"][0] and not verdicts["nightly"][0]:
        chk.violation("nondeterministic|toolchain", "the same crate is clean under the stable toolchain and draws diagnostics under nightly: the expansion "
                      "depends on what `Span` can do there\n%s\n%s" % (verdicts["nightly"][1], crate), {"crate.rs": crate})
    elif not verdicts["stable"][0]:
        chk.inconc("toolchain-probe-does-not-build")
        log("C16: toolchain probe: %s" % verdicts["stable"][1])
    else:
        chk.held("toolchains", True, 1)
        chk.count("toolchain-parity")


def unpretty_pairs(chk, seed, cases, n=24):
    """compile the same crate twice with the real proc macro and compare -Zunpretty=expanded."""
    rng = rng_for(seed, PROP, "unpretty")
    pick = [c for c in cases if c[1] is not None]
    rng.shuffle(pick)
    pick = pick[:n * 8]
    from .. import harness as H
    from . import c01
    # only cases that compile
    progs = {}
    for i in range(0, len(pick), 8):
        p = H.Program(header="#![allow(dead_code)]\n")
        for cid, td, text in pick[i:i + 8]:
            full = text.replace("#[derive(Educe)]", "#[derive(::educe::Educe)]") + "".join(td.extra_items)
            p.add_case(cid, H.module(cid, full))
        progs["u%d" % (i // 8)] = p
    name = "c16_unpretty"
    dropped, warns, ok = H.compile_programs(name, progs)
    d = B.d1_dir(name)
    tgt = os.path.join(WORK, "tgt", "d1-nightly")
    for b in progs:
        outs = []
        for k in range(2):
            os.utime(os.path.join(d, "src", "bin", b + ".rs"))
            rc, out, err, wall = run(["cargo", "+nightly", "rustc", "--offline", "--bin", b, "--",
                                      "-Zunpretty=expanded"], cwd=d,
                                     env=base_env({"CARGO_TARGET_DIR": tgt}), timeout=600)
            if rc != 0:
                chk.inconc("unpretty-failed")
                outs = None
                break
            outs.append(out)
        if outs is None:
            continue
        chk.evaluations += 2
        if outs[0] != outs[1]:
            chk.violation("nondeterministic|rustc-runs", "two rustc runs expand %s differently" % b,
                          {"a.rs": outs[0], "b.rs": outs[1]})
        else:
            chk.count("unpretty-pairs-equal")
