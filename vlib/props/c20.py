"""C20 — union impls are byte-wise and only generated behind an explicit `unsafe`.
Monitor: Debug strings ({:?}, {:#?}), ==, recorded Hasher input and clone() bytes of unions whose
every byte is initialised (a [u8; size_of] field covers the whole union), for boundary / seeded byte
patterns and pairs differing in exactly one byte at every offset, an exhaustive 2-byte domain in
thorough; natively and under Miri.  The same definitions without `unsafe` (or with it in a later
position) must be refused (in-process + rustc).  Clone applicability is probed with non-Copy args."""
import json
import os
import re

from .. import behave as BH
from .. import build as B
from .. import harness as H
from .. import shapes as S
from .. import unions as U
from ..common import NCPU, Check, digest, log, rng_for

PROP = "C20"
RT = S.RT


def gen_union(seed, k):
    rng = rng_for(seed, PROP, "case", k)
    traits = []
    pool = ["Debug", "PartialEq", "Hash"]
    for t in pool:
        if rng.random() < 0.75:
            traits.append(t)
    if not traits:
        traits = ["Debug"]
    if "PartialEq" in traits and rng.random() < 0.5:
        traits.append("Eq")
    traits += ["Clone", "Copy"] if rng.random() < 0.7 else []
    rng.shuffle(traits)
    # the union's own name may coincide with a name the impls introduce (the hasher parameter `H`, ...)
    name = rng.choice(["Un", "Un", "Un", "H", "HH", "Hasher", "T", "S", "Formatter", "D"])
    td = U.random_union(rng, traits=traits, generic=rng.random() < 0.25, max_fields=3, name=name)
    fs = td.variants[0].fields
    if td.params:
        # a defaulted parameter, used at an instantiation of another size than the default: "the bytes of the value" are those
        # of Self, not of the type as it is spelled without arguments (own random stream: the definitions stay what they were)
        drng = rng_for(seed, PROP, "pdefault", k)
        if drng.random() < 0.7:
            td.params[0]["default"] = {"u8": drng.choice(["u32", "[u8; 7]"]), "u32": drng.choice(["u8", "u64"]), "[u8; 3]": drng.choice(["u8", "u64"])}.get(
                td.params[0]["arg"], drng.choice(["u8", "[u8; 16]"]))
    if not td.params and rng.random() < 0.07:
        # a union without a single byte: "the byte slice of the value" is the empty slice, printed / hashed as such
        zst = [("()", 1), ("[u32; 0]", 4), ("::core::marker::PhantomData<u8>", 1), ("[u8; 0]", 1), ("[(); 3]", 1)]
        rng.shuffle(zst)
        keep = [f.name for f in fs][:rng.randint(1, 2)]
        fs[:] = [S.Field(n, U.ukind(ty, 0, al), i) for i, (n, (ty, al)) in enumerate(zip(keep, zst))]
        td.notes["zst"] = True
    size, align = U.size_align(td)
    raw = S.Field("raw", U.ukind("[u8; %d]" % size, size, 1), len(fs))
    fs.append(raw)
    td.notes["size"] = size
    return td


def gen_padded_union(seed, k):
    """a union WITHOUT a covering field: size_of::<Self>() is larger than every field (tail padding)"""
    rng = rng_for(seed, PROP, "padded", k)
    shapes = [([("[u8; 5]", 5, 1), ("u32", 4, 4)], 8), ([("[u8; 3]", 3, 1), ("u16", 2, 2)], 4),
              ([("[u8; 9]", 9, 1), ("u64", 8, 8)], 16), ([("[u16; 3]", 6, 2), ("u32", 4, 4)], 8),
              ([("[u8; 17]", 17, 1), ("u128", 16, 16), ("u8", 1, 1)], 32), ([("[u8; 6]", 6, 1), ("u32", 4, 4), ("u16", 2, 2)], 8)]
    fields, size = rng.choice(shapes)
    fields = list(fields)
    rng.shuffle(fields)
    traits = [t for t in ("Debug", "PartialEq", "Hash") if rng.random() < 0.8] or ["PartialEq"]
    if "PartialEq" in traits and rng.random() < 0.5:
        traits.append("Eq")
    rng.shuffle(traits)
    td = S.TypeDef("union", "Un")
    td.traits = traits
    for t in traits:
        td.tsem[t] = {"unsafe": True} if t in ("Debug", "PartialEq", "Hash") else {}
    if "Debug" in traits:
        r = rng.random()
        if r < 0.3:
            td.tsem["Debug"]["name"] = False
        elif r < 0.5:
            td.tsem["Debug"]["name"] = "Renamed"
    td.variants = [S.Variant(None, "named", [S.Field("abcdef"[i], U.ukind(*f), i) for i, f in enumerate(fields)])]
    td.notes["size"] = size
    td.notes["padded"] = True
    return td


def module_padded(cid, td, text, pats):
    """values are built in place (MaybeUninit + byte copy) and only ever used by reference, so the padding bytes are
    exactly the ones written"""
    size = td.notes["size"]
    name = effective_name(td)
    glue = ["pub const SIZE: usize = %d;" % size,
            "pub static PATS: [[u8; SIZE]; %d] = [%s];" % (len(pats), ", ".join("[%s]" % ", ".join(map(str, p)) for p in pats)),
            "pub fn with<R>(b: &[u8; SIZE], f: impl FnOnce(&Un) -> R) -> R {\n    let mut m = ::core::mem::MaybeUninit::<Un>::uninit();\n"
            "    unsafe { ::core::ptr::copy_nonoverlapping(b.as_ptr(), m.as_mut_ptr() as *mut u8, SIZE); f(&*m.as_ptr()) }\n}"]
    if "Debug" in td.traits:
        ref = ("f.debug_tuple(\"%s\").field(&&b[..]).finish()" % name) if name is not None else "::core::fmt::Debug::fmt(&b[..], f)"
        glue.append("pub struct Ref(pub [u8; SIZE]);\nimpl ::core::fmt::Debug for Ref { fn fmt(&self, f: &mut ::core::fmt::Formatter<'_>) "
                    "-> ::core::fmt::Result { let b = &self.0; %s } }" % ref)
    body = ["assert_eq!(::core::mem::size_of::<Un>(), SIZE, \"SIZE-MISMATCH\");", "for (i, p) in PATS.iter().enumerate() {"]
    if "Debug" in td.traits:
        body.append("    let (d, dp) = with(p, |u| (format!(\"{:?}\", u), format!(\"{:#?}\", u)));\n"
                    "    %sobs(\"%s\", \"dbg\", i, -1, &format!(\"{}\\t{}\\t{}\\t{}\", %shex(&d), %shex(&format!(\"{:?}\", Ref(*p))), "
                    "%shex(&dp), %shex(&format!(\"{:#?}\", Ref(*p)))));" % (RT, cid, RT, RT, RT, RT))
    if "Hash" in td.traits:
        body.append("    let h = with(p, |u| %srec_hash(u));\n    %sobs(\"%s\", \"hash\", i, -1, &format!(\"{}\\t{}\", h, %srec_hash(&p[..])));"
                    % (RT, RT, cid, RT))
    if "PartialEq" in td.traits:
        body.append("    let mut s = String::new();\n    for q in PATS.iter() { let (e, ne) = with(p, |u| with(q, |w| (u == w, u != w))); "
                    "s.push(if e { '1' } else { '0' }); s.push(if ne { '1' } else { '0' }); }\n    %sobs(\"%s\", \"eq\", i, -1, &s);" % (RT, cid))
    body.append("}")
    run = "pub fn run() {\n    %sguarded(\"%s\", || {\n        %sbegin();\n        %s\n    });\n}\n" % (
        RT, cid, RT, "\n        ".join(body))
    return H.module(cid, text + "\n".join(glue) + "\n" + run)


def patterns(rng, size, n):
    pats = [[0] * size, [0xFF] * size, [0xA5] * size, list(range(1, size + 1))]
    base = [rng.randrange(256) for _ in range(size)]
    pats.append(base)
    # one-byte deviations at every offset (catches prefix / size_of::<FirstField> comparisons)
    for off in range(size):
        p = list(base)
        p[off] ^= 0x01 << (off % 8)
        pats.append(p)
    while len(pats) < n:
        pats.append([rng.randrange(256) for _ in range(size)])
    seen, out = set(), []
    for p in pats:
        if tuple(p) not in seen:
            seen.add(tuple(p))
            out.append(p)
    return out


def effective_name(td):
    n = td.tsem.get("Debug", {}).get("name")
    if n is False:
        return None
    if n in (None, True):
        return td.name
    return n


def module(cid, td, text, pats, exhaustive, specs=True):
    if td.notes.get("padded"):
        return module_padded(cid, td, text, pats)
    size = td.notes["size"]
    ty = td.inst()
    name = effective_name(td)
    glue = ["pub const SIZE: usize = %d;" % size,
            "pub static PATS: [[u8; SIZE]; %d] = [%s];" % (len(pats), ", ".join("[%s]" % ", ".join(map(str, p)) for p in pats)),
            "pub fn mk(b: &[u8; SIZE]) -> %s { %s { raw: *b } }" % (ty, td.name)]
    if "Debug" in td.traits:
        if name is not None:
            ref = "f.debug_tuple(\"%s\").field(&&b[..]).finish()" % name
        else:
            ref = "::core::fmt::Debug::fmt(&b[..], f)"
        glue.append("pub struct Ref(pub [u8; SIZE]);\nimpl ::core::fmt::Debug for Ref { fn fmt(&self, f: &mut ::core::fmt::Formatter<'_>) "
                    "-> ::core::fmt::Result { let b = &self.0; %s } }" % ref)
    body = ["assert_eq!(::core::mem::size_of::<%s>(), SIZE, \"SIZE-MISMATCH\");" % ty,
            "for (i, p) in PATS.iter().enumerate() {", "    let u = mk(p);"]
    if "Debug" in td.traits:
        # the caller's formatter options (hex, width, sign, alignment) must reach the byte slice as they are
        lim = 3 if specs else 0     # not under Miri (formatting is the slowest thing it interprets)
        specs = "{:x?}|{:X?}|{:#x?}|{:5?}|{:02x?}|{:+?}|{:<9?}|{:#06X?}"
        args_u = ", ".join(["u"] * 8)
        args_r = ", ".join(["Ref(*p)"] * 8)
        body.append("    %sobs(\"%s\", \"dbg\", i, -1, &format!(\"{}\\t{}\\t{}\\t{}\\t{}\\t{}\", %shex(&format!(\"{:?}\", u)), %shex(&format!(\"{:?}\", Ref(*p))), "
                    "%shex(&format!(\"{:#?}\", u)), %shex(&format!(\"{:#?}\", Ref(*p))), %shex(&if i < %d { format!(\"%s\", %s) } else { String::new() }), %shex(&if i < %d { format!(\"%s\", %s) } else { String::new() })));"
                    % (RT, cid, RT, RT, RT, RT, RT, lim, specs, args_u, RT, lim, specs, args_r))
    if "Hash" in td.traits:
        body.append("    %sobs(\"%s\", \"hash\", i, -1, &format!(\"{}\\t{}\", %srec_hash(&u), %srec_hash(&p[..])));" % (RT, cid, RT, RT))
        body.append("    { let (g, w) = %sslice_hash_pair(&mk(p), &mk(p), &[mk(p), mk(p)][..]); %sobs(\"%s\", \"hslice\", i, -1, &format!(\"{}\\t{}\\t{}\", (g == w) as u8, g, w)); }"
                    % (RT, RT, cid))
    if "Clone" in td.traits:
        body.append("    let c = ::core::clone::Clone::clone(&u); let cb: [u8; SIZE] = unsafe { c.raw };\n"
                    "    %sobs(\"%s\", \"clone\", i, -1, if cb == *p { \"1\" } else { \"0\" });" % (RT, cid))
    if "PartialEq" in td.traits:
        body.append("    let mut s = String::new();\n    for q in PATS.iter() { let w = mk(q); s.push(if u == w { '1' } else { '0' }); "
                    "s.push(if u != w { '1' } else { '0' }); }\n    %sobs(\"%s\", \"eq\", i, -1, &s);" % (RT, cid))
    body.append("}")
    if exhaustive and size == 2:
        ex = ["let mut bad = 0usize; let mut n = 0usize; let mut first = String::new();",
              "for v in 0..=65535u16 { let p = v.to_le_bytes(); let u = mk(&p); n += 1;"]
        if "Debug" in td.traits:
            ex.append("  if format!(\"{:?}\", u) != format!(\"{:?}\", Ref(p)) || format!(\"{:#?}\", u) != format!(\"{:#?}\", Ref(p)) "
                      "{ bad += 1; if first.is_empty() { first = format!(\"dbg {:?}\", p); } }")
        if "Hash" in td.traits:
            ex.append("  if %srec_hash(&u) != %srec_hash(&p[..]) { bad += 1; if first.is_empty() { first = format!(\"hash {:?}\", p); } }" % (RT, RT))
        if "PartialEq" in td.traits:
            ex.append("  for q in [p, [p[0] ^ 1, p[1]], [p[0], p[1] ^ 0x80], [!p[0], !p[1]]] { let w = mk(&q); "
                      "if (u == w) != (p == q) || (u != w) == (u == w) { bad += 1; if first.is_empty() { first = format!(\"eq {:?} {:?}\", p, q); } } }")
        ex.append("}")
        ex.append("%sobs(\"%s\", \"exhaustive\", n, -1, &format!(\"{}\\t{}\", bad, %shex(&first)));" % (RT, cid, RT))
        body += ex
    run = "pub fn run() {\n    %sguarded(\"%s\", || {\n        %sbegin();\n        %s\n    });\n}\n" % (
        RT, cid, RT, "\n        ".join(body))
    return H.module(cid, text + "\n".join(glue) + "\n" + run)


def expected_dbg(name, p):
    inner = "[" + ", ".join(str(b) for b in p) + "]"
    return "%s(%s)" % (name, inner) if name is not None else inner


def expected_hash(p, which="native"):
    # (under Miri the recording hasher overrides the unstable `write_length_prefix` hook: a slice announces its length there)
    return "%s(%d);b(%s);" % ("len" if which == "miri" else "usize", len(p), "".join("%02x" % b for b in p))


def strip_unsafe(td, rng):
    """variants of the request that must be refused: `unsafe` removed, or moved out of first position"""
    import copy
    out = []
    for t in ("Debug", "PartialEq", "Hash"):
        if t in td.traits:
            bad = copy.copy(td)
            bad.tsem = dict(td.tsem)
            bad.tsem[t] = {k: v for k, v in td.tsem[t].items() if k != "unsafe"}
            out.append(("no-unsafe/" + t, S.render(bad, rng, extras=False)))
    if "Debug" in td.traits and td.tsem["Debug"].get("name") is not None:
        n = td.tsem["Debug"]["name"]
        nm = ("true" if n else "false") if isinstance(n, bool) else n

        def hook(lv, ob, lst):
            if lv == "type":
                return [("RAW", "Debug(name = %s, unsafe)" % nm) if tt == "Debug" else (tt, pp) for tt, pp in lst]
            return lst
        out.append(("unsafe-not-first/Debug", S.render(td, rng, extras=False, entries_hook=hook)))
    return out


def main(tier, seed, scale=1.0):
    chk = Check(PROP, tier, seed)
    n = int((160 if tier == "quick" else 3000) * scale)
    n_miri = int((16 if tier == "quick" else 480) * scale)
    npat = 14 if tier == "quick" else 28
    chk.rule = ("random unions (1-3 fields over ints/arrays of sizes 1..16 and alignments 1..16, generic ones, plus a "
                "[u8; size_of] field that covers every byte) with Debug/PartialEq/Hash(unsafe), Eq, Clone+Copy and name "
                "settings; byte patterns: 0x00, 0xFF, 0xA5, ramp, seeded, and one-bit deviations at every offset; all pairs "
                "for ==; Miri slice; every definition is also rendered without / with misplaced `unsafe` and must be "
                "refused; non-trivial = every case; distinct by definition text")
    chk.assumptions = ["values are fully initialised through the covering byte-array field (reading padding is the "
                       "documented reason the impls need `unsafe`)", "size_of is computed by the generator and asserted at run time"]
    cases = []
    for k in range(n):
        td = gen_union(seed, k)
        rng = rng_for(seed, PROP, "pats", k)
        text = S.render(td, rng_for(seed, PROP, "spell", k), extras=False)
        pats = patterns(rng, td.notes["size"], npat)
        cases.append(("c%d" % k, td, text, pats))
    # unions with tail padding (no covering field): all size_of::<Self>() bytes count, also those no field covers
    for k in range(max(8, n // 5)):
        td = gen_padded_union(seed, k)
        rng = rng_for(seed, PROP, "ppats", k)
        text = S.render(td, rng_for(seed, PROP, "pspell", k), extras=False)
        cases.append(("p%d" % k, td, text, patterns(rng, td.notes["size"], npat)))
    # exhaustive 2-byte unions (thorough): a few fixed definitions
    exh = []
    if tier == "thorough":
        for j, (attrs, nm) in enumerate([("Debug(unsafe), PartialEq(unsafe), Hash(unsafe)", None),
                                         ("Debug(unsafe, name = false), PartialEq(unsafe), Eq, Hash(unsafe)", False),
                                         ("Debug(unsafe, name(Other)), Hash(unsafe), PartialEq(unsafe)", "Other")]):
            td = S.TypeDef("union", "Un")
            td.traits = ["Debug", "PartialEq", "Hash"]
            td.tsem = {"Debug": {"unsafe": True}, "PartialEq": {"unsafe": True}, "Hash": {"unsafe": True}}
            if nm is not None:
                td.tsem["Debug"]["name"] = nm
            td.variants = [S.Variant(None, "named", [S.Field("a", U.ukind("u16", 2, 2), 0), S.Field("b", U.ukind("u8", 1, 1), 1),
                                                       S.Field("raw", U.ukind("[u8; 2]", 2, 1), 2)])]
            td.notes["size"] = 2
            text = "#[derive(::educe::Educe)]\n#[educe(%s)]\npub union Un {\n    pub a: u16,\n    pub b: u8,\n    pub raw: [u8; 2],\n}\n" % attrs
            exh.append(("x%d" % j, td, text, [[0, 0], [1, 2]]))

    def progs_for(cs, nb, exhaustive=False, specs=True):
        progs = {}
        for i, sh in enumerate(H.shard(cs, nb)):
            p = H.Program()
            for cid, td, text, pats in sh:
                p.add_case(cid, module(cid, td, text, pats, exhaustive, specs), "%s::run();" % cid)
            progs["u%d" % i] = p
        return progs
    allc = cases + exh
    by_id = {c[0]: c for c in allc}
    runs = []
    progs = progs_for(cases, min(NCPU, max(1, len(cases) // 10)))
    if exh:
        progs.update({"x" + b: p for b, p in progs_for(exh, 1, True).items()})
    for release in (False, True):
        dropped, warns, _ = H.compile_programs("c20", progs, release=release)
        dall = {}
        for b in progs:
            dall.update(dropped[b])
        res = H.run_programs("c20", progs, release=release)
        obs = {}
        for b, (rc, o, err) in res.items():
            obs.update(o)
        runs.append(("native-release" if release else "native-debug", obs, dall))
    padded = [c for c in cases if c[1].notes.get("padded")]
    plain = [c for c in cases if not c[1].notes.get("padded")]
    mcases = [(cid, td, text, pats[:5]) for cid, td, text, pats in plain[:max(1, n_miri - 3)] + padded[:3]]
    mprogs = progs_for(mcases, min(NCPU, max(1, len(mcases) // 4)), specs=False)
    mdrop, _, _ = H.compile_programs("c20m", mprogs)
    mall = {}
    for b in mprogs:
        mall.update(mdrop[b])
    mobs, reports = BH.run_miri("c20m", mprogs, mdrop, flags="-Zmiri-ignore-leaks")
    for b, (rc, err) in reports.items():
        if BH.classify_miri(err) == "tool":
            chk.inconc("miri-tool-failure")
            log("C20: Miri failed on %s without a UB report: %s" % (b, err[-400:].replace("\n", " | ")))
            continue
        m = re.search(r"error: ([^\n]*)", err)
        chk.violation("miri|%s" % re.sub(r"0x[0-9a-f]+|\d+", "N", m.group(1) if m else "?")[:80],
                      "Miri reports an error in a union impl on fully initialised values (bin %s)\n%s" % (b, err[-3000:]),
                      {"miri.txt": err, "crate.rs": mprogs[b].source()})
    runs.append(("miri", mobs, mall))
    chk.extra["miri_processes"] = len(mprogs)
    if tier == "thorough":
        # AddressSanitizer on optimised code: the union impls read size_of::<Self>() raw bytes
        acases = cases[:int(600 * scale)]
        aprogs = progs_for(acases, NCPU)
        try:
            aobs, areports, adrop = BH.run_asan("c20a", aprogs)
            for b, err in areports.items():
                m = re.search(r"ERROR: AddressSanitizer: ([^\n]*)", err)
                chk.violation("asan|%s" % re.sub(r"0x[0-9a-f]+|\d+", "N", m.group(1) if m else "?")[:70],
                              "AddressSanitizer report in a union impl (bin %s)\n%s" % (b, err[:3000]),
                              {"asan.txt": err, "crate.rs": aprogs[b].source()})
            runs.append(("asan-release", aobs, adrop))
            chk.extra["asan_processes"] = len(aprogs)
        except Exception as e:
            chk.inconc("asan-unavailable")
            log("C20: ASan run failed: %s" % e)
    bad = set()
    for which, obs, dall in runs:
        mp = {c[0]: c[3] for c in mcases}
        for cid, td, text, pats in allc:
            if cid in bad:
                continue
            if which == "miri":
                if cid not in mp:
                    continue
                pats = mp[cid]
            if which == "asan-release" and obs.get(cid) is None:
                continue
            files = {"case.rs": module(cid, td, text, pats, cid.startswith("x"))}
            if cid in dall:
                chk.inconc("does-not-compile (see C01)")
                log("C20: case dropped: %s\n%s" % (dall[cid][0]["rendered"] or dall[cid][0]["message"], text))
                bad.add(cid)
                continue
            o = obs.get(cid)
            if o is None or not o.began:
                chk.inconc("not-run:" + which)
                bad.add(cid)
                continue
            if o.panic is not None and "SIZE-MISMATCH" in o.panic:
                chk.inconc("generator-size-mismatch")
                bad.add(cid)
                continue
            if o.panic is not None or not o.ended:
                if which == "miri" and o.panic is None:
                    bad.add(cid)
                    continue
                chk.violation("panic|%s" % which, "union impl panicked/aborted (%s): %s\n%s" % (which, o.panic, text), files)
                bad.add(cid)
                continue
            name = effective_name(td)
            for op, i, j, res, ev in o.recs:
                chk.evaluations += 1
                msg = None
                if op == "dbg":
                    got, ref, gotp, refp = [H.unhex(x) for x in res[:4]]
                    if len(res) >= 6 and res[4] != res[5]:
                        msg = ("Debug output under other format specifications ({:x?} {:X?} {:#x?} {:5?} {:02x?} {:+?} {:<9?} {:#06X?}) is not what "
                               "the byte slice prints\nobserved: %r\nexpected: %r" % (H.unhex(res[4]), H.unhex(res[5])))
                    elif got != expected_dbg(name, pats[i]) or got != ref or gotp != refp:
                        msg = ("Debug output is not the %d bytes of the value under the effective name\nobserved: %r\nexpected: %r\n"
                               "pretty observed: %r\npretty expected: %r" % (len(pats[i]), got, expected_dbg(name, pats[i]), gotp, refp))
                elif op == "hash":
                    if res[0] != res[1] or res[0] != expected_hash(pats[i], which):
                        msg = "Hash input is not the byte slice of the value\nobserved: %s\nexpected: %s" % (res[0], expected_hash(pats[i], which))
                elif op == "hslice":
                    if res[0] != "1":
                        msg = "a slice of two unions does not feed the length and then each value's bytes\nobserved: %s\nexpected: %s" % (res[1], res[2])
                elif op == "clone":
                    if res[0] != "1":
                        msg = "clone() is not a bitwise copy"
                elif op == "eq":
                    s = res[0]
                    for q in range(len(pats)):
                        e, ne = s[2 * q] == "1", s[2 * q + 1] == "1"
                        if e != (pats[i] == pats[q]) or ne == e:
                            msg = "== is not byte equality: %s vs %s -> eq=%s ne=%s" % (pats[i], pats[q], e, ne)
                            break
                elif op == "exhaustive":
                    chk.evaluations += i
                    chk.extra["exhaustive_2byte_values"] = chk.extra.get("exhaustive_2byte_values", 0) + i
                    if res[0] != "0":
                        msg = "exhaustive 2-byte domain: %s mismatches, first: %s" % (res[0], H.unhex(res[1]))
                if msg:
                    chk.violation("%s|%s" % (op, which), "%s (%s)\n%s" % (msg, which, text), files)
                    bad.add(cid)
                    break
    # refusal without `unsafe`
    feed, meta = [], {}
    for cid, td, text, pats in cases:
        for cls, t in strip_unsafe(td, rng_for(seed, PROP, "strip", cid)):
            fid = "%s_%d" % (cid, len(feed))
            feed.append((fid, t))
            meta[fid] = (cls, t, cid)
    d2 = B.run_inproc([(f, t.replace("::educe::Educe", "Educe")) for f, t in feed], items=False)
    p = {}
    for i, sh in enumerate(H.shard(feed, min(NCPU, max(1, len(feed) // 150)))):
        pr = H.Program(header="#![allow(dead_code)]\n")
        for fid, t in sh:
            pr.add_case(fid, H.module(fid, t))
        p["n%d" % i] = pr
    dropped, _, _ = H.compile_programs("c20n", p, rounds=8)
    errs = {}
    for b in p:
        errs.update(dropped[b])
    for fid, (cls, t, cid) in meta.items():
        es = [e for e in errs.get(fid, []) if e.get("code") is None]
        chk.evaluations += 1
        if es:
            chk.count("refused:" + cls.split("/")[0])
            continue
        r = d2.get(fid, {})
        chk.violation("accepted|%s" % cls, "a union impl was generated although `unsafe` is %s (in-process: %s)\n%s" %
                      ("missing" if cls.startswith("no-unsafe") else "not the first parameter", r.get("st"), t), {"input.rs": t})
        bad.add(cid)
    # Clone applicability: requires Copy fields
    probe_noncopy_clone(chk)
    probe_clone(chk, seed, bad)
    for cid, td, text, pats in allc:
        if cid not in bad:
            chk.held(digest(text), True, 0)
            chk.count("%s/name=%s" % ("generic" if td.params else "plain", td.tsem.get("Debug", {}).get("name")))
            chk.sample({"case": cid, "source": text, "patterns": len(pats), "size": td.notes["size"]}, limit=3)
    return chk.finish()


NONCOPY_CLONE = [
    # (case, union with a field that is not Copy + educed Clone in some bound mode): none of these may compile, a union
    # can only be cloned by copying it
    ("auto", "#[educe(Clone)]", "<T>", "::core::mem::ManuallyDrop<T>"),
    ("auto_concrete", "#[educe(Clone)]", "", "::core::mem::ManuallyDrop<::std::vec::Vec<u8>>"),
    ("bound_pred", "#[educe(Clone(bound(T: ::core::clone::Clone)))]", "<T>", "::core::mem::ManuallyDrop<T>"),
    ("bound_str", "#[educe(Clone(bound = \"T: ::core::clone::Clone\"))]", "<T>", "::core::mem::ManuallyDrop<T>"),
    ("bound_false", "#[educe(Clone(bound = false))]", "", "::core::mem::ManuallyDrop<::std::string::String>"),
    ("bound_false_generic", "#[educe(Clone(bound = false))]", "<T>", "::core::mem::ManuallyDrop<T>"),
    ("bound_all", "#[educe(Clone(bound(*)))]", "<T>", "::core::mem::ManuallyDrop<T>"),
    ("bound_empty", "#[educe(Clone(bound()))]", "<T>", "::core::mem::ManuallyDrop<T>"),
]


def probe_noncopy_clone(chk):
    p = H.Program()
    for cid, attr, gen, fty in NONCOPY_CLONE:
        p.add_case("nc_" + cid, "pub mod nc_%s {\n#[derive(::educe::Educe)]\n%s\npub union Slot%s {\n    pub value: %s,\n    pub raw: u8,\n}\n}\n"
                   % (cid, attr, gen, fty))
    try:
        dropped, _, _ = H.compile_programs("c20n", {"n0": p}, rounds=len(NONCOPY_CLONE) + 2, subcmd="check")
    except Exception as e:
        chk.inconc("noncopy-probe-build")
        log("C20: non-Copy clone probe: %s" % e)
        return
    for cid, attr, gen, fty in NONCOPY_CLONE:
        chk.evaluations += 1
        if "nc_" + cid in dropped["n0"]:
            chk.count("noncopy-clone-refused")
            chk.held("noncopy:" + cid, True, 0)
        else:
            chk.violation("clone-without-copy|%s" % cid, "educed Clone on a union with a field that is not Copy compiles (%s): the clone "
                          "cannot be a bitwise copy of a Copy value\n%s pub union Slot%s { value: %s, raw: u8 }" % (cid, attr, gen, fty),
                          {"case.rs": p.texts["nc_" + cid]})


def probe_clone(chk, seed, bad):
    src = """pub mod pc {
#[derive(::educe::Educe)]
#[educe(Clone, Copy)]
pub union Un<G> { pub a: ::core::mem::ManuallyDrop<G>, pub b: u8 }
pub fn run() {
    ::verif_rt::guarded("pc", || {
        let yes = { struct Probe<X: ?Sized>(::core::marker::PhantomData<X>); trait Fb { const V: bool = false; } impl<X: ?Sized> Fb for Probe<X> {} impl<X: ::core::clone::Clone> Probe<X> { const V: bool = true; } <Probe<Un<u32>>>::V };
        let no = { struct Probe<X: ?Sized>(::core::marker::PhantomData<X>); trait Fb { const V: bool = false; } impl<X: ?Sized> Fb for Probe<X> {} impl<X: ::core::clone::Clone> Probe<X> { const V: bool = true; } <Probe<Un<::std::string::String>>>::V };
        ::verif_rt::begin();
        ::verif_rt::obs("pc", "probe", 0, -1, &format!("{}{}", yes as u8, no as u8));
    });
}
}
"""
    p = H.Program()
    p.add_case("pc", src, "pc::run();")
    try:
        dropped, _, _ = H.compile_programs("c20p", {"p0": p})
    except Exception as e:
        chk.inconc("probe-build")
        return
    if dropped["p0"]:
        chk.inconc("probe-does-not-compile")
        log("C20 probe dropped: %s" % dropped["p0"])
        return
    res = H.run_programs("c20p", {"p0": p})
    o = res["p0"][1].get("pc")
    if o is None or not o.recs:
        chk.inconc("probe-not-run")
        return
    chk.evaluations += 2
    if o.recs[0][3][0] != "10":
        chk.violation("clone-applicability", "educed Clone on a union: Un<u32>: Clone / Un<String>: Clone = %s, expected 10 (Copy "
                      "fields required)" % o.recs[0][3][0], {"case.rs": src})
    else:
        chk.count("clone-probe-ok")
