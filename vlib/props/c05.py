"""C05 — hash input is a function of the variant and the non-ignored fields only.
Monitor: the exact sequence of Hasher::write_* calls (recording hasher) made by the educed Hash impl
for every value; oracle: the stream must end with the concatenation of the per-field records
(field type's own Hash or the custom method) of the non-ignored fields in declaration order, the
remaining prefix must depend on the variant only and differ between variants; with PartialEq
educed under the same choices, a == b implies identical streams."""
import json

from .. import behave as BH
from .. import gen as G
from .. import shapes as S
from .. import twin as TW
from ..common import Check, digest, log, rng_for

PROP = "C05"
RT = S.RT


def gen_case(seed, k, cap):
    rng = rng_for(seed, PROP, "case", k)
    ts = ["Hash"]
    with_eq = rng.random() < 0.5
    if with_eq:
        ts += ["PartialEq"] + (["Eq"] if rng.random() < 0.5 else [])
    ts += rng.sample(["Debug", "Clone", "Default"], rng.randint(0, 1))
    rng.shuffle(ts)
    td = G.random_type(rng, ts, G.Opts(p_attr=0.9, max_fields=4, max_variants=4, p_partial=0.0, lawful_only=True, bounds=False, p_repr=0.5, all_method=rng.random() < 0.1, p_packed=0.5))
    if with_eq:
        # same ignore / method choices for PartialEq as for Hash (hash_alt ~ eq_mod2: both look at a % 2)
        for _, f in td.all_fields():
            h = f.sem.get("Hash", {})
            s = {}
            if h.get("ignore"):
                s["ignore"] = True
            if h.get("method"):
                s["method"] = RT + "eq_mod2"
            if s:
                s["carrier"] = rng.choice(["PartialEq"] + (["Eq"] if "Eq" in td.traits else []))
                f.sem["PartialEq"] = s
            else:
                f.sem.pop("PartialEq", None)
    text = S.render(td, rng_for(seed, PROP, "spell", k), extras=False)
    vals = S.values(td, cap, rng)
    # reference: per-field records, generated from the descriptor (independent of educe)
    arms = []
    for vi, v in enumerate(td.variants):
        body = ["let mut h = %sRecHasher::new();" % RT]
        for f in v.fields:
            s = f.sem.get("Hash", {})
            if s.get("ignore"):
                continue
            if s.get("method"):
                body.append("%s(f%d, &mut h);" % (s["method"], f.slot))
            else:
                body.append("::core::hash::Hash::hash(f%d, &mut h);" % f.slot)
        body.append("h.rec")
        arms.append("        %s => { %s }" % (S.pattern(td, v), " ".join(body)))
    if td.variants:
        glue = ("#[allow(unused_variables, unused_mut)]\npub fn ref_hash(x: &%s) -> String {\n    match x {\n%s\n    }\n}\n"
                % (td.inst(), "\n".join(arms)))
    else:
        glue = "pub fn ref_hash(x: &%s) -> String { match *x {} }\n" % td.inst()
    drive = ["        %sdrive_hash(\"c%d\", %d, &mk, &ref_hash);" % (RT, k, len(vals))]
    if with_eq:
        drive.append("        %sdrive_eq(\"c%d\", %d, &mk);" % (RT, k, len(vals)))
    return BH.Case("c%d" % k, td, text, vals, glue=glue, drive="\n".join(drive), info={"with_eq": with_eq})


def key_of(td, v):
    """what the hash input may depend on: variant + abstract view of non-ignored fields"""
    i, fs = v
    out = [i]
    for f, a in zip(td.variants[i].fields, fs):
        s = f.sem.get("Hash", {})
        if s.get("ignore"):
            continue
        out.append(a % 2 if s.get("method") else a)
    return tuple(out)


def judge(chk, c, obs, dropped):
    td = c.td
    if c.cid in dropped:
        chk.inconc("does-not-compile (see C01)")
        log("C05: case dropped: %s\n%s" % (dropped[c.cid][0]["message"], c.text))
        return
    o = obs.get(c.cid)
    if o is None or not o.began:
        chk.inconc("not-run")
        return
    files = {"case.rs": c.module(), "descriptor.json": json.dumps(S.describe(td), indent=1, default=str),
             "values.json": json.dumps(c.vals)}
    if o.panic is not None or not o.ended:
        chk.violation("panic|" + (o.panic or "abort")[:60], "hash panicked/aborted: %s\n%s" % (o.panic, c.text), files)
        return
    n = len(c.vals)
    streams = {}
    eqt = {}
    for op, i, j, res, ev in o.recs:
        if op == "hash":
            got, want = res[0], res[1]
            got = "" if got == "~" else got
            want = "" if want == "~" else want
            if not got.endswith(want):
                chk.violation("field-records|%s" % td.kind,
                              "recorded hasher input does not end with the records of the non-ignored fields in "
                              "declaration order\nvalue = %s\nobserved = %s\nexpected suffix = %s\n%s" %
                              (c.vals[i], got, want, c.text), files)
                return
            prefix = got[:len(got) - len(want)] if want else got
            if j == 0:
                streams[i] = (got, prefix, res[2] if len(res) > 2 else got)
            elif streams.get(i, (got,))[0] != got:
                chk.violation("operand-dependent", "hash input differs between two equal values\n%s" % c.text, files)
                return
        elif op == "hslice":
            if res[0] != "1":
                chk.violation("slice-of-values", "a slice of two values does not feed the length and then the two values one after the other\n"
                              "observed = %s\nexpected = %s\n%s" % (res[1], res[2], c.text), files)
                return
        elif op == "eq":
            eqt[(i, j)] = res[0] == "1"
    if len(streams) != n:
        chk.inconc("incomplete-output")
        return
    by_variant = {}
    for i, (vi, _) in enumerate(c.vals):
        by_variant.setdefault(vi, set()).add(streams[i][1])
    for vi, ps in by_variant.items():
        if len(ps) != 1:
            chk.violation("prefix-depends-on-fields", "the part of the hash input that precedes the field records "
                          "differs between values of one variant: %s\n%s" % (sorted(ps), c.text), files)
            return
    for i in range(n):
        for j in range(n):
            ki, kj = key_of(td, c.vals[i]), key_of(td, c.vals[j])
            same = streams[i][0] == streams[j][0]
            if ki == kj and not same:
                chk.violation("same-key-different-input", "values agreeing on variant and non-ignored fields feed "
                              "different data\n%s %s\n%s | %s\n%s" % (c.vals[i], c.vals[j], streams[i][0], streams[j][0], c.text), files)
                return
            # "different data" is judged on the flattened bytes: write_isize(2) and write_usize(2) are different calls but
            # the same bytes for every hasher that relies on the default forwarding
            if ki != kj and streams[i][2] == streams[j][2]:
                what = "variant" if ki[0] != kj[0] else "field"
                chk.violation("different-key-same-input|%s" % what, "values differing in %s feed identical data\n%s %s\n%s\n%s"
                              % (what, c.vals[i], c.vals[j], streams[i][0], c.text), files)
                return
            if c.info["with_eq"] and eqt.get((i, j)) and not same:
                chk.violation("eq-implies-hash", "a == b but the hash inputs differ\n%s %s\n%s" % (c.vals[i], c.vals[j], c.text), files)
                return
    attrs = sum(1 for _, f in td.all_fields() if f.sem.get("Hash"))
    chk.held(digest(c.text), attrs >= 1 or len(td.variants) >= 2, 2 * n)
    chk.count("%s/attrs=%d/eq=%s" % (td.kind, min(attrs, 3), c.info["with_eq"]))
    chk.extra["pairs_compared"] = chk.extra.get("pairs_compared", 0) + n * n
    if attrs:
        chk.sample({"case": c.cid, "source": c.text,
                    "streams": [{"value": c.vals[i], "recorded": streams[i][0]} for i in range(min(3, n))]}, limit=3)


def wide_cases():
    from .. import harness as H
    out = []
    tys = ", ".join(["pub u8"] * 104)
    vals = ", ".join(str(i) for i in range(104))
    for cid, text, ctor in (
            ("xs", "#[derive(::educe::Educe)]\n#[educe(Hash)]\npub struct Ty(%s);\n" % tys, "Ty(%s)" % vals),
            ("xe", "#[derive(::educe::Educe)]\n#[educe(Hash)]\npub enum Ty {\n    W,\n    V(%s),\n}\n" % tys.replace("pub ", ""), "Ty::V(%s)" % vals),
            ("xm", "#[derive(::educe::Educe)]\n#[educe(Hash)]\npub enum Ty {\n    V(%s),\n}\n" % ", ".join(
                ["#[educe(Hash(method(%shash_u8_plain)))] u8" % RT if i % 7 == 3 else "u8" for i in range(104)]), "Ty::V(%s)" % vals)):
        drive = "        let x = %s;\n        %sbegin(); %sobs(\"%s\", \"wide\", 0, -1, &%sflat_hash(&x));" % (ctor, RT, RT, cid, RT)
        c = BH.Case(cid, None, text, [], drive=drive, info={})
        c.module = lambda c=c: H.module(c.cid, c.text + "pub fn run() {\n    %sguarded(\"%s\", || {\n%s\n    });\n}\n" % (RT, c.cid, c.drive))
        out.append(c)
    return out


def main(tier, seed, scale=1.0):
    chk = Check(PROP, tier, seed)
    n = int((960 if tier == "quick" else 30000) * scale)
    cap = 20 if tier == "quick" else 36
    chk.rule = ("random struct/enum definitions with Hash educed (ignore/method in random spellings), half of them "
                "with PartialEq educed under the same choices; every value hashed into a recording Hasher (twice, as "
                "left and right operand); all pairs of streams compared; non-trivial = at least one Hash attribute "
                "or >= 2 variants; distinct by source text")
    chk.assumptions = ["generated code is generic in the hasher, so one recording decides for all hashers",
                       "the encoding of the variant tag is not fixed by the property: only its dependence is checked"]
    batch = 640
    for k0 in range(0, n, batch):
        cases = [gen_case(seed, k, cap) for k in range(k0, min(n, k0 + batch))]
        obs, dropped, crashed, _, _ = BH.execute("c05", cases)
        for b, (rc, err) in crashed.items():
            log("C05: binary %s exited with %s: %s" % (b, rc, err[-500:]))
        for c in cases:
            judge(chk, c, obs, dropped)
    # positions beyond 9 and beyond 99: a tuple struct and a tuple variant with 104 fields are fed in declaration order
    wide = wide_cases()
    obs, dropped, crashed, _, _ = BH.execute("c05x", wide)
    for c in wide:
        o = obs.get(c.cid)
        if c.cid in dropped or o is None or not o.recs:
            chk.inconc("wide-not-run")
            continue
        chk.evaluations += 1
        got = o.recs[0][3][0]
        want = "".join("%02x" % i for i in range(104))
        if not got.endswith(want):
            chk.violation("field-records|wide-tuple", "the 104 fields are not fed in declaration order\nobserved = %s\nexpected suffix = %s\n%s"
                          % (got, want, c.text[:300]), {"case.rs": c.module()})
            continue
        chk.held("wide:" + c.cid, True, 1)
        chk.count("wide-tuple")
    if tier == "thorough":
        # variant positions beyond 16 bits (takes rustc minutes): different variants still feed different data
        from .. import harness as H
        nv = 65538
        text = "#[derive(::educe::Educe)]\n#[educe(Hash)]\npub enum Ty {\n%s}\n" % "".join("    C%d,\n" % i for i in range(nv))
        drive = ("        %sbegin(); %sobs(\"huge\", \"huge\", 0, -1, &format!(\"{}\\t{}\\t{}\\t{}\", %sflat_hash(&Ty::C0), %sflat_hash(&Ty::C65536), %sflat_hash(&Ty::C1), %sflat_hash(&Ty::C65537)));"
                 % (RT, RT, RT, RT, RT, RT))
        hc = BH.Case("huge", None, text, [], drive=drive, info={})
        hc.module = lambda c=hc: H.module(c.cid, c.text + "pub fn run() {\n    %sguarded(\"%s\", || {\n%s\n    });\n}\n" % (RT, c.cid, c.drive))
        obs, dropped, crashed, _, _ = BH.execute("c05h", [hc])
        o = obs.get("huge")
        if "huge" in dropped or o is None or not o.recs:
            chk.inconc("huge-enum-not-run")
        else:
            got = o.recs[0][3]
            chk.evaluations += 1
            if len(set(got)) != 4:
                chk.violation("tag-collision|huge-enum", "variants %s of a 65538-variant enum feed %s: different variants feed identical data"
                              % (["C0", "C65536", "C1", "C65537"], got), {"note.txt": "enum Ty { C0, .., C65537 } with #[educe(Hash)]"})
            else:
                chk.held("huge-enum", True, 1)
                chk.count("huge-enum")
    # differential family: parameter-free requests over std field types against std's derives
    tw = TW.cases(seed, PROP, max(40, n // 4), "hash")
    obs, dropped, crashed, _, _ = BH.execute("c05w", tw)
    for c in tw:
        TW.judge(chk, c, obs, dropped, "hashing")
    return chk.finish()
