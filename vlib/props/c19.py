"""C19 — generated code is insulated from the names at the derive site.
Workload: the C02/C03/C05/C06/C07/C08/C10 workloads re-generated with user identifiers (fields,
variants, type / const parameters, lifetimes) drawn from the identifiers that occur in educe's own
expansions (harvested automatically from in-process expansions), with every definition placed in a
#![no_std] library crate inside a module that shadows the prelude names, defines free functions
named like the called methods and (one context) macros named like the ones the templates call.
Monitors: rustc diagnostics for the library (by line) and the unchanged behavioural oracles of the
other properties on the hostile-named types."""
import json
import os
import re

from .. import behave as BH
from .. import build as B
from .. import gen as G
from .. import harness as H
from .. import shapes as S
from ..common import NCPU, Check, Inconclusive, digest, log, rng_for
from . import c02, c03, c05, c06, c07, c08, c10

PROP = "C19"
RT = S.RT

KEYWORDS = set("""as break const continue crate else enum extern false fn for if impl in let loop match mod move mut pub ref
return self Self static struct super trait true type unsafe use where while async await dyn abstract become box do final
macro override priv typeof unsized virtual yield try union macro_rules gen""".split())
# documented bound: the crate name `core` cannot be re-bound; `_` is not an identifier
EXCLUDE = {"core", "_", "verif_rt", "educe", "Ty", "Educe"}
# documented bound: identifiers that are primitive type names (a const parameter named `bool` cannot even be
# written back as a generic argument without braces; std's derives fail on it the same way)
# a const parameter named like a type that is in scope cannot be passed back as a generic argument (E0747); the
# same happens to std's own derives
CONST_EXCLUDE = {"Option", "Result", "Vec", "String", "Box", "Clone", "Copy", "Default", "Drop", "Eq", "Ord", "PartialEq",
                 "PartialOrd", "Fn", "FnMut", "FnOnce", "From", "Into", "Iterator", "IntoIterator", "DoubleEndedIterator",
                 "ExactSizeIterator", "Extend", "Send", "Sync", "Sized", "Unpin", "ToOwned", "ToString", "AsRef", "AsMut",
                 "TryFrom", "TryInto", "FromIterator",   # the type-namespace names of the std prelude
                 "Some", "None", "Ok", "Err"}             # prelude variants (they resolve in generic-argument position too)
PRIMITIVES = set("bool char str u8 u16 u32 u64 u128 usize i8 i16 i32 i64 i128 isize f32 f64".split())

IDENT_RE = re.compile(r"[A-Za-z_][A-Za-z0-9_]*")


def harvest(seed, n=300):
    """identifiers that occur in expansions but not in the inputs that produced them"""
    feed, inputs = [], []
    for k in range(n):
        rng = rng_for(seed, PROP, "harvest", k)
        td = G.random_type(rng, G.random_trait_set(rng), G.Opts(names=False))
        text = S.render(td, rng, extras=False).replace("::educe::Educe", "Educe")
        feed.append(("h%d" % k, text))
    res = B.run_inproc(feed, items=False)
    new_ids = set()
    for cid, text in feed:
        r = res.get(cid)
        if r and r.get("st") == "ok":
            # per request: what its expansion mentions that the request itself did not
            new_ids.update(set(IDENT_RE.findall(r["out"])) - set(IDENT_RE.findall(text)))
    pool = sorted(i for i in new_ids - KEYWORDS - EXCLUDE - PRIMITIVES if not re.fullmatch(r"\d.*", i))
    return pool


def family(name):
    """normalise a generated-binding name to its family (the known-findings key)"""
    if name.startswith("r#"):
        name = name[2:]
    if re.fullmatch(r"_\d+", name):
        return "_N"
    if re.fullmatch(r"__\d+", name):
        return "__N"
    for pre in ("_s_", "_o_", "_d_", "v_", "Educe__", "educe__"):
        if name.startswith(pre):
            return pre + "*"
    if name.startswith("_"):
        return "_*"
    return name


CONST_CAUSE = ("interpreted as a const parameter", "cannot shadow const parameters", "const parameter defined here",
               "type provided when a constant was expected")


def const_clash(diags, const_name):
    """rustc itself attributes the error to the const parameter being mistaken for / shadowing a generated name"""
    if not const_name:
        return False
    text = " ".join((d.get("rendered") or "") + d.get("message", "") for d in diags)
    return any(c in text for c in CONST_CAUSE) and const_name in text


VALUE_ITEM_CAUSE = ("cannot shadow constants", "cannot shadow statics", "cannot shadow tuple structs", "cannot shadow unit structs",
                    "interpreted as a constant pattern", "the constant is defined here", "constant defined here",
                    "refutable pattern in function argument", "refutable pattern in local binding")


def value_item_clash(diags, name):
    """rustc itself says that a generated binding of that name is read as / collides with the user's constant"""
    text = " ".join((d.get("rendered") or "") + d.get("message", "") for d in diags)
    return any(c in text for c in VALUE_ITEM_CAUSE) and name in text


METHOD_CAUSE = ("shadowed by the local binding", "can't capture dynamic environment in a fn item",
                "this function of the same name is available here")


def method_clash(diags, name):
    """rustc itself says that the user's function is hidden by a local binding of the generated code"""
    text = " ".join((d.get("rendered") or "") + d.get("message", "") for d in diags)
    return any(c in text for c in METHOD_CAUSE) and name in text


class Names:
    """hostile name provider for the generator"""

    def __init__(self, pool, avoid=None):
        self.pool = pool
        self.avoid = avoid or {}
        # prefixes the templates put in front of field names (derived from the harvest: harvested identifiers that end
        # with one of the neutral field names), with and without their leading underscore
        pre = set()
        for ident in pool:
            for n in G.FIELD_NAMES:
                if ident.endswith(n) and len(ident) > len(n):
                    pre.add(ident[:-len(n)])
        self.prefixes = sorted(pre | {p[1:] for p in pre if p.startswith("_") and len(p) > 1} | {"_"})
        self.recent = []
        self.lower = [p for p in pool]
        self.lifetimes = ["'f", "'state", "'other", "'builder", "'_0", "'educe__f", "'H", "'source"]

    def field(self, rng):
        # half of the time a name derived from a sibling's name by a template prefix (`x` next to `o_x`, `_s_x`, ...)
        if self.recent and rng.random() < 0.5:
            n = rng.choice(self.prefixes) + rng.choice(self.recent)
        elif rng.random() < 0.3:
            n = rng.choice(["a", "b", "x", "k"])
        else:
            n = rng.choice(self.pool)
        if n in KEYWORDS or n == "_" or re.fullmatch(r"_*\d.*", n) and not re.fullmatch(r"_+\d+", n):
            n = rng.choice(self.pool)
        self.recent = (self.recent + [n])[-3:]
        return n

    def variants(self, rng, n):
        return rng.sample(self.pool, n)

    def type_param(self, rng):
        # names the directed workload already reported for this position are not drawn again here
        return rng.choice([p for p in self.pool if p not in self.avoid.get("type-param", ())])

    def const_param(self, rng):
        return rng.choice([p for p in self.pool if p not in self.avoid.get("const-param", ()) and p not in CONST_EXCLUDE])

    def lifetime(self, rng):
        return rng.choice(self.lifetimes)


class PairNames:
    """fields named x, <p>x, <p><p>x, y, <p>y ...: every variant holds a name next to its prefixed forms"""

    def __init__(self, prefix):
        self.prefix = prefix
        self.i = 0

    def field(self, rng):
        seq = ["x", self.prefix + "x", "y", self.prefix + "y", "z", self.prefix + "z", self.prefix * 2 + "z", "k",
               self.prefix + "k"]
        n = seq[self.i] if self.i < len(seq) else "w%d" % self.i
        self.i += 1
        return n

    def variants(self, rng, n):
        self.i = 0
        return ["V%d" % i for i in range(n)]

    def type_param(self, rng):
        return "G"

    def const_param(self, rng):
        return "N"

    def lifetime(self, rng):
        return "'a"


SHADOW_TYPES = ["Option", "Some", "None", "Result", "Ok", "Err", "Ordering", "Equal", "Less", "Greater", "Formatter",
                "PhantomData", "Box", "Vec", "String", "Hasher", "Arguments"]
SHADOW_TRAITS = ["Clone", "Copy", "Default", "Debug", "Hash", "PartialEq", "Eq", "PartialOrd", "Ord", "Into", "From",
                 "Deref", "DerefMut", "Sized", "Send", "Sync", "Drop", "Fn", "AsRef", "Iterator", "ToString", "ToOwned"]
FREE_FNS = ["fmt", "eq", "ne", "cmp", "partial_cmp", "hash", "clone", "clone_from", "default", "deref", "deref_mut",
            "into", "new", "drop", "debug_struct", "debug_tuple", "debug_map", "field", "entry", "finish", "write_str",
            "from_raw_parts", "size_of", "cast", "from"]
MACROS = ["stringify", "unreachable", "panic", "write", "format_args", "matches", "assert", "debug_assert", "vec"]


def context(kind, taken):
    """text placed before the definition inside its module; `taken` = idents the case itself defines"""
    out = []
    if kind in ("shadow", "all"):
        tys = [t for t in SHADOW_TYPES if t not in taken]
        trs = [t for t in SHADOW_TRAITS if t not in taken]
        out.append("#[allow(unused_imports)]\nuse self::educe_shadow_items::{%s};\n" % ", ".join(tys + trs))
        out.append("pub mod educe_shadow_items {\n%s\n%s\n}\n" % (
            "\n".join("    pub struct %s;" % t for t in tys), "\n".join("    pub trait %s {}" % t for t in trs)))
    if kind in ("fns", "all"):
        out.append("".join("#[allow(dead_code)]\nfn %s() {}\n" % f for f in FREE_FNS if f not in taken))
        # local modules named like the crates the generated paths start with: only `::core::..` is safe
        out.append("".join("#[allow(dead_code)]\npub mod %s {}\n" % m for m in ("core", "std", "alloc") if m not in taken))
    if kind in ("macros",):
        out.append("".join("#[allow(unused_macros)]\nmacro_rules! %s { ($($t:tt)*) => { compile_error!(\"user macro `%s` "
                           "was picked up by generated code\") }; }\n" % (m, m) for m in MACROS))
    return "".join(out)


ALL9 = "Debug, Clone, PartialEq, Eq, PartialOrd, Ord, Hash, Default"


# binding names the templates are known to introduce (so that every family is exercised on every run, whatever the
# harvest returned); `k` / `a` / `b` are the field names of the directed templates
EXTRA_BINDINGS = ["arg", "size", "data", "self_data", "other_data", "educe__f", "_s_k", "_o_k", "_d_k", "v_k", "_k", "_a",
                  "_0", "_1", "__0", "__1", "builder", "f", "other", "source", "state", "self_discriminant",
                  "other_discriminant", "Educe__DebugField", "Educe__RawString"]


# generated type-level names (the Hasher parameter and its lengthened form), tried in their raw spelling as well
RAW_EXTRA = ["H", "HH", "V", "M"]


# (trait, signature, body, field attribute, type-level traits)
METHOD_NAMES_ALL = False   # thorough tier: every harvested name; quick: the known bindings + a fixed quarter of the harvest
METHOD_TEMPLATES = [
    ("Debug", "(v: &u8, fm: &mut ::core::fmt::Formatter<'_>) -> ::core::fmt::Result", "::core::fmt::Debug::fmt(v, fm)",
     "Debug(method(%s))", "Debug"),
    ("Clone", "(v: &u8) -> u8", "*v", "Clone(method(%s))", "Clone"),
    ("PartialEq", "(l: &u8, r: &u8) -> bool", "*l == *r", "PartialEq(method(%s))", "PartialEq"),
    ("PartialOrd", "(l: &u8, r: &u8) -> ::core::option::Option<::core::cmp::Ordering>", "::core::cmp::PartialOrd::partial_cmp(l, r)",
     "PartialOrd(method(%s))", "PartialEq, PartialOrd"),
    ("Ord", "(l: &u8, r: &u8) -> ::core::cmp::Ordering", "::core::cmp::Ord::cmp(l, r)",
     "Ord(method(%s))", "PartialEq, Eq, PartialOrd, Ord"),
    ("Hash", "<HH: ::core::hash::Hasher>(v: &u8, st: &mut HH)", "::core::hash::Hash::hash(v, st)", "Hash(method(%s))", "Hash"),
    ("Into", "(v: u8) -> u16", "v as u16", "Into(u16, method(%s))", "Into(u16)"),
]


def directed(pool):
    """one definition per (harvested identifier, position): const / type parameter, field, variant, lifetime"""
    out = []
    Z = RT + "Z"
    # the raw spelling of a name is the same name: `r#H` next to a generated `H`
    raws = ["r#" + b for b in EXTRA_BINDINGS + RAW_EXTRA]
    for x in list(pool) + [b for b in EXTRA_BINDINGS if b not in pool] + raws:
        base = x[2:] if x.startswith("r#") else x
        if base not in CONST_EXCLUDE:
          out.append(("const-param", x,
                    "#[derive(::educe::Educe)]\n#[educe(%s)]\npub struct Ty<const %s: usize> {\n    #[educe(Default(expression = %szs::<%s>()))]\n"
                    "    pub a: [%s; %s],\n    #[educe(Debug(method(%sfmt_alt)))]\n    pub b: u8,\n}\n" % (ALL9, x, RT, x, Z, x, RT)))
        if base not in CONST_EXCLUDE:
          out.append(("const-param", x,
                    "#[derive(::educe::Educe)]\n#[educe(%s)]\npub enum Ty<const %s: usize> {\n    #[educe(Default)]\n    V(#[educe(Default = %szs::<%s>())] [%s; %s], u8),\n"
                    "    W { #[educe(Debug(method(%sfmt_alt)))] k: u8 },\n    U,\n}\n" % (ALL9.replace("Debug", "Debug(name = true)"), x, RT, x, Z, x, RT)))
        out.append(("type-param", x,
                    "#[derive(::educe::Educe)]\n#[educe(%s, Into(u16))]\npub struct Ty<%s: %sPayload> {\n    pub a: %s,\n    #[educe(Debug(method(%sfmt_alt)))]\n    pub b: u16,\n}\n"
                    % (ALL9, x, RT, x, RT)))
        out.append(("type-param", x,
                    "#[derive(::educe::Educe)]\n#[educe(%s, Deref, DerefMut)]\npub enum Ty<%s: %sPayload> {\n    #[educe(Default)]\n    V(%s, u8),\n"
                    "    W { #[educe(Deref, DerefMut)] k: %s, #[educe(Debug(method(%sfmt_alt)))] j: u8 },\n}\n"
                    % (ALL9, x, RT, "#[educe(Deref, DerefMut)] " + x, x, RT)))
        out.append(("field", x,
                    "#[derive(::educe::Educe)]\n#[educe(%s, Into(u16), Deref, DerefMut)]\npub struct Ty {\n    #[educe(Debug(method(%sfmt_alt)))]\n    pub %s: u8,\n"
                    "    #[educe(Deref, DerefMut)]\n    pub zz: u16,\n}\n" % (ALL9, RT, x)))
        out.append(("field", x,
                    "#[derive(::educe::Educe)]\n#[educe(%s, Into(u16))]\npub enum Ty {\n    #[educe(Default)]\n    V { %s: u8, #[educe(Debug(method(%sfmt_alt)))] zz: u16 },\n"
                    "    W { zz: u16, #[educe(Clone(method(%sclone_alt)))] %s: u8 },\n}\n" % (ALL9, x, RT, RT, x)))
        out.append(("variant", x,
                    "#[derive(::educe::Educe)]\n#[educe(%s, Into(u16))]\npub enum Ty {\n    #[educe(Default)]\n    %s(u16),\n    Zz { a: u16 },\n}\n"
                    % (ALL9.replace("Debug", "Debug(name = true)"), x)))
        out.append(("variant", x,
                    "#[derive(::educe::Educe)]\n#[educe(%s)]\npub enum Ty {\n    Zz,\n    #[educe(Default)]\n    %s,\n}\n" % (ALL9, x)))
        out.append(("variant", x,
                    "#[derive(::educe::Educe)]\n#[educe(Debug, Clone, PartialEq, Deref, DerefMut, Into(u16))]\npub enum Ty {\n    %s(u16),\n"
                    "    Zz { #[educe(Deref, DerefMut, Into(u16))] a: u16, b: u8 },\n}\n" % x))
        # a user function named like a generated binding, used as a custom method through its bare name
        for tr, sig, body, attr, head in (METHOD_TEMPLATES if (METHOD_NAMES_ALL or base in EXTRA_BINDINGS or digest(x)[0] in "0123") else []):
            fn = "pub fn %s%s { %s }\n" % (x, sig, body)
            a = attr % x
            out.append(("method-name/" + tr, x,
                        fn + "#[derive(::educe::Educe)]\n#[educe(%s)]\npub struct Ty {\n    #[educe(%s)]\n    pub a: u8,\n    pub b: u8,\n}\n"
                        "#[derive(::educe::Educe)]\n#[educe(%s)]\npub enum Ty2 {\n    V { #[educe(%s)] a: u8, b: u8 },\n    W(#[educe(%s)] u8, u8),\n}\n"
                        % (head, a, head, a, a)))
        # an ordinary user type of that name next to the derive, mentioned only inside field types
        out.append(("surrounding-type", x,
                    "#[derive(Debug, Clone, PartialEq, Eq, PartialOrd, Ord, Hash, Default)]\npub struct %s { pub v: u16 }\n"
                    "#[derive(::educe::Educe)]\n#[educe(%s, Into(%s))]\npub struct Ty {\n    pub key: %s,\n    pub opt: ::core::option::Option<%s>,\n"
                    "    pub arr: [%s; 2],\n    #[educe(Debug(method(%szz_dbg)))]\n    pub pair: (%s, %s),\n}\n"
                    "#[derive(::educe::Educe)]\n#[educe(%s)]\npub enum Ty2 {\n    #[educe(Default)]\n    V(%s, [%s; 2]),\n    W { k: ::core::option::Option<%s> },\n}\n"
                    % (x, ALL9, x, x, x, x, RT, x, x, ALL9, x, x, x)))
        # a constant of that name next to the derive (value namespace: a generated binding pattern of the same name
        # becomes a constant pattern / an illegal shadowing)
        if base not in CONST_EXCLUDE:
            out.append(("surrounding-const", x,
                        "pub const %s: u16 = 7;\n#[derive(::educe::Educe)]\n#[educe(%s, Into(u16))]\npub struct Ty {\n    pub key: u16,\n"
                        "    #[educe(Debug(method(%szz_dbg)))]\n    pub b: u8,\n}\n"
                        "#[derive(::educe::Educe)]\n#[educe(%s)]\npub enum Ty2 {\n    #[educe(Default)]\n    V(u16, u8),\n    W { k: u16, #[educe(Debug(method(%szz_dbg)))] j: u8 },\n    U,\n}\n"
                        % (x, ALL9, RT, ALL9.replace("Debug", "Debug(name = true)"), RT)))
        # the derived type itself carries the name
        out.append(("own-name", x,
                    "#[derive(::educe::Educe)]\n#[educe(%s, Into(u16))]\npub struct %s {\n    pub k: u16,\n    #[educe(Debug(method(%szz_dbg)))]\n    pub j: u8,\n}\n"
                    % (ALL9, x, RT)))
        out.append(("own-name", x,
                    "#[derive(::educe::Educe)]\n#[educe(%s)]\npub enum %s {\n    #[educe(Default)]\n    V(u16, #[educe(Debug(method(%szz_dbg)))] u8),\n    W { k: u16 },\n    U,\n}\n"
                    % (ALL9.replace("Debug", "Debug(name = true)"), x, RT)))
        out.append(("own-name", x,
                    "#[derive(::educe::Educe)]\n#[educe(Debug(unsafe), PartialEq(unsafe), Eq, Hash(unsafe), Clone, Copy, Default)]\npub union %s {\n    #[educe(Default)]\n    pub k: u32,\n    pub j: [u8; 4],\n}\n" % x))
        # a trait of that name bounds a parameter in the where-clause (which is copied onto helper impls)
        out.append(("where-trait", x,
                    "pub trait %s {}\nimpl %s for u8 {}\n#[derive(::educe::Educe)]\n#[educe(Debug, Clone, PartialEq, Hash)]\npub struct Ty<T> where T: %s {\n"
                    "    #[educe(Debug(method(%szz_dbg)))]\n    pub k: T,\n    pub j: u8,\n}\n"
                    "#[derive(::educe::Educe)]\n#[educe(Debug, Clone, PartialEq, Hash)]\npub enum Ty2<T> where T: %s {\n    V(#[educe(Debug(method(%szz_dbg)))] T, u8),\n    W { k: T },\n}\n"
                    % (x, x, x, RT, x, RT)))
        # the name as a generic argument of the method path, in the path and the string spelling
        for sp in ("method(zz_typed::<%s>)", "method = zz_typed::<%s>", "method = \"zz_typed::<%s>\"", "method(\"zz_typed::<%s>\")"):
            out.append(("method-path-argument", x,
                        "pub struct %s {}\npub fn zz_typed<Q>(v: &u8, f: &mut ::core::fmt::Formatter<'_>) -> ::core::fmt::Result { ::core::fmt::Debug::fmt(v, f) }\n"
                        "#[derive(::educe::Educe)]\n#[educe(Debug)]\npub struct Ty {\n    #[educe(Debug(%s))]\n    pub k: u8,\n    pub j: u8,\n}\n" % (x, sp % x)))
        # the name as the TYPE a custom method is reached through (`Name::method`), for Debug (named, and in the map form
        # whose keys go through a helper item) and for Hash (whose method has a type parameter of its own)
        out.append(("method-path-type", x,
                    "pub struct %s {}\nimpl %s {\n    pub fn zz_show(v: &u8, f: &mut ::core::fmt::Formatter<'_>) -> ::core::fmt::Result { ::core::fmt::Debug::fmt(v, f) }\n"
                    "    pub fn zz_h<Sx: ::core::hash::Hasher>(v: &u8, s: &mut Sx) { ::core::hash::Hash::hash(v, s) }\n}\n"
                    "#[derive(::educe::Educe)]\n#[educe(Debug, Hash)]\npub struct Ty {\n    #[educe(Debug(method(%s::zz_show)), Hash(method(%s::zz_h)))]\n    pub k: u8,\n    pub j: u8,\n}\n"
                    "#[derive(::educe::Educe)]\n#[educe(Debug(name = false), Hash)]\npub struct Ty2 {\n    #[educe(Debug(method = \"%s::zz_show\"), Hash(method = \"%s::zz_h\"))]\n    pub k: u8,\n    pub j: u8,\n}\n"
                    "#[derive(::educe::Educe)]\n#[educe(Debug, Hash)]\npub enum Ty3 {\n    #[educe(Debug(name = false))]\n    V { #[educe(Debug(method(%s::zz_show)), Hash(method(%s::zz_h)))] k: u8, j: u8 },\n"
                    "    W(#[educe(Hash(method = %s::zz_h))] u8),\n}\n" % (x, x, x, x, x, x, x, x, x)))
        # raw string literals are string literals too
        out.append(("method-path-raw-string", x,
                    "pub struct %s {}\npub fn zz_typed<Q>(v: &u8, f: &mut ::core::fmt::Formatter<'_>) -> ::core::fmt::Result { ::core::fmt::Debug::fmt(v, f) }\n"
                    "pub fn zz_typed_h<Q, Sx: ::core::hash::Hasher>(v: &u8, s: &mut Sx) { ::core::hash::Hash::hash(v, s) }\n"
                    "#[derive(::educe::Educe)]\n#[educe(Debug(name = false), Hash)]\npub struct Ty {\n    #[educe(Debug(method = r\"zz_typed::<%s>\"), Hash(method(r#\"zz_typed_h::<%s, _>\"#)))]\n    pub k: u8,\n    pub j: u8,\n}\n"
                    % (x, x, x)))
        # the name together with its lengthened forms, longest first: a fresh name must avoid all of them at once
        chain = [x + x[-1] * 2, base + base[-1], x]
        out.append(("type-param-chain", x,
                    "#[derive(::educe::Educe)]\n#[educe(%s)]\npub struct Ty<%s>(%s);\n"
                    "#[derive(::educe::Educe)]\n#[educe(%s)]\npub enum Ty2<%s, const %s: usize> {\n    #[educe(Default)]\n    V(%s, [u8; %s]),\n    W { k: %s },\n}\n"
                    % (ALL9, ", ".join("%s: %sPayload" % (c, RT) for c in chain), ", ".join("pub " + c for c in chain),
                       ALL9, "%s: %sPayload" % (chain[2], RT), chain[1], chain[2], chain[1], chain[2])))
        # the same with the suffix the Debug helper's name is lengthened with, next to a field that needs the helper
        chain_ = [x + "__", base + "_", x]
        out.append(("type-param-chain", x,
                    "#[derive(::educe::Educe)]\n#[educe(%s)]\npub struct Ty<%s>(%s, #[educe(Debug(method(%szz_dbg)))] pub u8);\n"
                    "#[derive(::educe::Educe)]\n#[educe(Debug)]\npub enum Ty2<%s> {\n    V(%s, #[educe(Debug(method(%szz_dbg)))] u8),\n    W { #[educe(Debug(method(\"%szz_dbg\")))] k: %s },\n}\n"
                    % (ALL9, ", ".join("%s: %sPayload" % (c, RT) for c in chain_), ", ".join("pub " + c for c in chain_), RT,
                       ", ".join(chain_), ", ".join(chain_), RT, RT, chain_[2])))
        if x == base:
          out.append(("lifetime", x,
                    "#[derive(::educe::Educe)]\n#[educe(Debug, Clone, PartialEq, Eq, PartialOrd, Ord, Hash, Deref)]\npub struct Ty<'%s> {\n    pub a: &'%s u8,\n}\n" % (x, x)))
    out += special_context_cases()
    return out


PRIMS = ["bool", "char", "str", "u8", "u16", "u32", "u64", "u128", "usize", "i8", "i16", "i32", "i64", "i128", "isize", "f32", "f64"]


def special_context_cases():
    """definitions inside modules where (a) every primitive type name means a user type, (b) nothing of the prelude is in
    scope (`#![no_implicit_prelude]`): the definitions themselves only use full paths"""
    out = []
    P = "::core::primitive::"
    shadow = "#![allow(non_camel_case_types, dead_code)]\n" + "".join(
        "pub struct %s;\n" % p for p in PRIMS if p != "u8") + "#[derive(::core::clone::Clone)]\npub struct u8;\n"
    noprel = "#![no_implicit_prelude]\n#![allow(dead_code)]\n"
    Z = RT + "zz_dbg"
    bodies = [
        ("struct", "#[derive(::educe::Educe)]\n#[educe(%s, Into(%su16))]\npub struct Ty {\n    pub a: %su8,\n    #[educe(Debug(method(%s)))]\n    pub b: %su16,\n    pub c: %sbool,\n}\n"
         % (ALL9, P, P, Z, P, P)),
        ("tuple", "#[derive(::educe::Educe)]\n#[educe(%s, Deref, DerefMut)]\npub struct Ty(#[educe(Deref, DerefMut)] pub %su8, pub %sisize, #[educe(Debug(method(%s)))] pub %sf32);\n"
         .replace("%s, Deref", "Debug, Clone, PartialEq, PartialOrd, Default, Deref") % (P, P, Z, P)),
        ("enum-repr", "#[derive(::educe::Educe)]\n#[educe(%s)]\n#[repr(u8)]\npub enum Ty {\n    #[educe(Default)]\n    V(%su8, %su16) = 5,\n    W { k: %su8 } = 2,\n    U,\n}\n"
         % (ALL9.replace("Debug", "Debug(name = true)"), P, P, P)),
        ("enum-repr-i64", "#[derive(::educe::Educe)]\n#[educe(PartialEq, Eq, PartialOrd, Ord, Hash)]\n#[repr(C, i64)]\npub enum Ty {\n    V(%su8) = -5,\n    W = 2,\n}\n" % P),
        ("enum", "#[derive(::educe::Educe)]\n#[educe(%s, Into(%su16))]\npub enum Ty {\n    #[educe(Default)]\n    V(%su16, #[educe(Debug(method(%s)))] %su8),\n    W { k: %su16 },\n}\n"
         % (ALL9, P, P, Z, P, P)),
        ("enum-unit", "#[derive(::educe::Educe)]\n#[educe(%s)]\npub enum Ty {\n    A = -200,\n    #[educe(Default)]\n    B = 70000,\n    C,\n}\n" % ALL9),
        ("union", "#[derive(::educe::Educe)]\n#[educe(Debug(unsafe), PartialEq(unsafe), Eq, Hash(unsafe), Clone, Copy, Default)]\npub union Ty {\n    #[educe(Default)]\n    pub k: %su32,\n    pub j: [%su8; 4],\n}\n" % (P, P)),
        ("map-form", "#[derive(::educe::Educe)]\n#[educe(Debug(name = false), Hash)]\npub struct Ty {\n    #[educe(Debug(method(%s)))]\n    pub a: %su8,\n    pub b: %su8,\n}\n" % (Z, P, P)),
    ]
    for name, body in bodies:
        out.append(("primitives-shadowed/" + name, "primitive", shadow + body))
        out.append(("no-implicit-prelude/" + name, "prelude", noprel + body))
    # the Hasher parameter has to avoid the generic parameters and the method paths AT ONCE (`<H>` pushes it to `HH`, which a
    # path then names)
    for params, arg in (("H", "HH"), ("H, HH", "HHH"), ("HH", "H"), ("const H: usize", "HH")):
        decl = ", ".join(p if p.startswith("const") else p for p in params.split(", "))
        fields = "".join(", ::core::marker::PhantomData<%s>" % p for p in params.split(", ") if not p.startswith("const"))
        out.append(("hasher-name/parameters-and-path", arg,
                    "#![allow(dead_code)]\npub struct %s;\npub fn zz_tagged<Q, Sx: ::core::hash::Hasher>(v: &u8, s: &mut Sx) { ::core::hash::Hash::hash(v, s) }\n"
                    "pub trait Marker {}\nimpl Marker for %s {}\npub fn zz_marked<Q: Marker, Sx: ::core::hash::Hasher>(v: &u8, s: &mut Sx) { ::core::hash::Hash::hash(v, s) }\n"
                    "#[derive(::educe::Educe)]\n#[educe(Hash)]\npub struct Ty<%s>(#[educe(Hash(method(zz_marked::<%s, _>)))] pub u8%s);\n"
                    "#[derive(::educe::Educe)]\n#[educe(Hash)]\npub enum Ty2<%s> {\n    V(#[educe(Hash(method = \"zz_marked::<%s, _>\"))] u8%s),\n}\n"
                    % (arg, arg, decl, arg, fields, decl, arg, fields)))
    # a type declared inside a function body: `self::name` is the module's item, a bare `name` would be the function's own
    for t, sig, body, attr, head in METHOD_TEMPLATES:
        if t == "Into":
            continue
        for sp in ("method(self::zz_m)", "method = self::zz_m", "method = \"self::zz_m\"", "method(\"self::zz_m\")"):
            a = attr.replace("method(%s)", sp)
            out.append(("self-path-in-fn-body/" + t, "self",
                        "#![allow(dead_code)]\npub fn zz_m%s { %s }\npub fn holder() {\n    fn zz_m() {}\n    let _ = zz_m;\n"
                        "    #[derive(::educe::Educe)]\n    #[educe(%s)]\n    pub struct Ty {\n        #[educe(%s)]\n        pub a: u8,\n        pub b: u8,\n    }\n"
                        "    #[derive(::educe::Educe)]\n    #[educe(%s)]\n    pub enum Ty2 {\n        V { #[educe(%s)] a: u8, b: u8 },\n        W(#[educe(%s)] u8, u8),\n    }\n}\n"
                        % (sig, body, head, a, head, a, a)))
    # a field whose type is the user's own (non-Copy) type called `u8`: it is cloned like any other field
    out.append(("primitives-shadowed/user-type-field", "primitive",
                shadow + "#[derive(::educe::Educe)]\n#[educe(Clone)]\npub struct Ty {\n    pub a: u8,\n    pub b: %su16,\n}\n"
                "#[derive(::educe::Educe)]\n#[educe(Clone)]\npub enum Ty2 {\n    V(u8, %su16),\n    W { x: u8 },\n}\n" % (P, P)))
    return out


def run_directed(chk, pool, ctxs):
    cases = directed(pool)
    # the directed definitions are only compiled, never run: type checking (cargo check) decides.  They are spread over
    # several no_std crates (bin targets without a main) so that the front end runs on all cores.
    shards = max(1, min(NCPU, len(cases) // 150))
    hdr = LIB_HEADER.replace("#![no_std]\n", "#![no_std]\n#![no_main]\n")
    libs = {"s%d" % j: H.Program(header=hdr, main=False) for j in range(shards)}
    bases = {"s%d" % j: H.Program(header=hdr, main=False) for j in range(shards)}
    meta = {}
    for i, (pos, x, text) in enumerate(cases):
        cid = "d%d" % i
        ctx = "none" if text.startswith("#![") else ctxs[i % len(ctxs)]
        meta[cid] = (pos, x, text, ctx)
        taken = set(IDENT_RE.findall(text))
        stripped = "\n".join(l for l in text.split("\n") if not l.strip().startswith("#[") or l.strip().startswith("#[repr"))
        stripped = re.sub(r"#\[educe\([^\]]*\)\]\s*", "", stripped)
        b = "s%d" % (i % shards)
        libs[b].add_case(cid, "pub mod %s {\n%s%s}\n" % (cid, context(ctx, taken), text))
        bases[b].add_case(cid, "pub mod %s {\n%s%s}\n" % (cid, context(ctx, taken), stripped))
    bd, _, _ = H.compile_programs("c19dbase", bases, rounds=6, subcmd="check")
    bdrop = {}
    for b in bd:
        bdrop.update(bd[b])
    for cid in bdrop:
        chk.inconc("names-not-legal-rust")
        log("C19: the directed definition %s (%s) is not legal Rust without the derive: %s" % (cid, meta[cid][0], bdrop[cid][0]["message"][:200]))
        for b in libs:
            if cid in libs[b].texts:
                libs[b].parts[2 + [r[0] for r in libs[b].ranges].index(cid)] = "\n" * libs[b].texts[cid].count("\n")
    dd, _, _ = H.compile_programs("c19d", libs, rounds=10, subcmd="check")
    dropped = {}
    for b in dd:
        dropped.update(dd[b])
    for cid, (pos, x, text, ctx) in meta.items():
        if cid in bdrop:
            continue
        chk.evaluations += 1
        if cid in dropped:
            e = dropped[cid][0]
            sig = "directed|%s|%s|%s" % (pos, x, e.get("code"))
            if pos == "const-param" and const_clash(dropped[cid], x):
                sig = "const-param-clash|%s" % family(x)
            # the template differs from the ones that compile only in the constant's name: whatever rustc reports (a
            # constant pattern is not always named in the message), the cause is the generated binding of that name
            if pos == "surrounding-const" and (value_item_clash(dropped[cid], x) or any(d.get("via_educe") for d in dropped[cid])):
                sig = "value-item-clash|%s" % family(x)
            if pos.startswith("method-name/") and method_clash(dropped[cid], x):
                sig = "method-name-clash|%s|%s" % (pos.split("/")[1], family(x))
            chk.violation(sig, "an identifier the generated code uses internally breaks the derive when it names a %s: `%s` "
                          "(context %s): %s\n%s\n%s" % (pos, x, ctx, e["message"], e.get("rendered", "")[:1200], text),
                          {"case.rs": text, "diagnostics.json": json.dumps(dropped[cid], indent=1)})
        else:
            chk.held(digest(text), True, 0)
            chk.count("directed/%s" % pos)
    failing = {}
    for cid in dropped:
        if cid in meta:
            failing.setdefault(meta[cid][0], set()).add(meta[cid][1])
    return failing


LIB_HEADER = ("// generated by /verif (C19): hostile naming contexts, no_std\n#![no_std]\n"
              "#![allow(dead_code, unused_variables, non_snake_case, non_camel_case_types, non_upper_case_globals)]\n"
              "// std is only reachable under another name (for the harness' own Fp impls): `::std::..` stays unresolvable\n"
              "extern crate std as verif_std;\n")


def collect_cases(seed, n, cap):
    """hostile-named cases produced by the other properties' generators"""
    S.ALLOW_NON_EXHAUSTIVE = False   # the values are built in the binary crates, the definitions live in the library
    try:
        return _collect_cases(seed, n, cap)
    finally:
        S.ALLOW_NON_EXHAUSTIVE = True


def _collect_cases(seed, n, cap):
    gens = [("eq", c02.gen_case, c02.judge, True), ("ord", c03.gen_case, c03.judge, True),
            ("hash", c05.gen_case, c05.judge, True), ("dbg", c06.gen_case, c06.judge, True),
            ("clone", c07.gen_case, c07.judge, True), ("into", c10.gen_case, c10.judge, True)]
    cases = []
    for k in range(n):
        tag, g, j, with_cap = gens[k % len(gens)]
        c = g(seed * 7919 + 13, 100000 + k, cap)
        c.cid_orig = c.cid
        c.tag, c.judge = tag, j
        cases.append(c)
    # directed pairs: every template prefix (with and without its leading underscore) x every workload
    names = G.DEFAULT_NAMES
    k = 200000
    try:
        for rep in range(3):
            for pre in names.prefixes:
                for tag, g, j, with_cap in gens[:5]:
                    G.DEFAULT_NAMES = PairNames(pre)
                    # named shapes with at least three fields, so that a name and its prefixed forms share a variant
                    G.OPTS_PATCH = {"kind": "enum" if (k + rep) % 3 else "struct", "min_fields": 3, "force_style": "named"}
                    c = g(seed * 7919 + 17 + rep, k, cap)
                    if re.search(r"\b(fn|r#|type|match|loop|struct)\b", "") is None:
                        pass
                    c.tag, c.judge = tag, j
                    cases.append(c)
                    k += 1
    finally:
        G.DEFAULT_NAMES = names
        G.OPTS_PATCH = {}
    return cases


def split_case(c, ctx):
    """(library module text, binary module text) for one case"""
    td = c.td
    taken = set(IDENT_RE.findall(c.text))
    lib = ("pub mod %s {\npub mod h {\n%s%s%s}\npub use self::h::%s;\n%smod support {\n#[allow(unused_imports)]\n"
           "use super::h::*;\nuse ::verif_std::string::String;\n%s}\n}\n"
           % (c.cid, context(ctx, taken), c.text, "".join(td.extra_items) + BH.decoys(td), td.name,
              "pub use self::h::dflt_value;\n" if td.extra_items else "", S.emit_fp(td)))
    glue = c.glue
    body = ("#[allow(unused_imports)]\nuse ::c19::%s::*;\n" % c.cid + S.emit_mk(td, c.vals) + glue +
            "pub fn run() {\n    %sguarded(\"%s\", || {\n%s\n    });\n}\n" % (RT, c.cid, c.drive))
    return lib, H.module(c.cid, body)


def main(tier, seed, scale=1.0):
    chk = Check(PROP, tier, seed)
    n = int((360 if tier == "quick" else 6000) * scale)
    cap = 8 if tier == "quick" else 12
    pool = harvest(seed, 300 if tier == "quick" else 1500)
    if len(pool) < 20:
        raise Inconclusive("identifier harvest too small: %s" % pool)
    chk.extra["harvested_identifiers"] = pool
    chk.rule = ("the eq / ord / hash / debug / clone / into workloads generated with field, variant, type-parameter, "
                "const-parameter and lifetime names drawn from the %d identifiers harvested from educe's own expansions; "
                "every definition lives in a #![no_std] library inside a module that (rotating) shadows the prelude names, "
                "defines free functions named like the called methods, or defines macro_rules! named like the called "
                "macros; compile diagnostics + the unchanged behavioural oracles; every case non-trivial; distinct by text"
                % len(pool))
    chk.assumptions = ["exclusions: Rust keywords, `_`, and re-binding the crate name `core`",
                       "the same shape grammar with neutral names is established to compile by C01"]
    ctxs = ["shadow", "fns", "all", "macros", "none"]
    global METHOD_NAMES_ALL
    METHOD_NAMES_ALL = True
    failing = run_directed(chk, pool, ctxs)
    names = Names(pool, failing)
    G.DEFAULT_NAMES = names
    G.EXCLUDE_KINDS = {"BoxT", "VecG"}
    try:
        cases = collect_cases(seed, n, cap)
    finally:
        G.DEFAULT_NAMES = None
        G.EXCLUDE_KINDS = set()
    batch = 480
    for k0 in range(0, len(cases), batch):
        sub = cases[k0:k0 + batch]
        run_batch(chk, sub, ctxs, k0)
    return chk.finish()


def run_batch(chk, cases, ctxs, k0):
    lib = H.Program(header=LIB_HEADER, main=False, file_suffix="src/lib.rs")
    # stripped baseline of the library: the hostile names must be legal Rust by themselves
    base = H.Program(header=LIB_HEADER, main=False, file_suffix="src/lib.rs")
    bins = {}
    shards = H.shard(cases, min(NCPU, max(1, len(cases) // 12)))
    info = {}
    for si, sh in enumerate(shards):
        p = H.Program()
        for c in sh:
            ctx = ctxs[(k0 + len(info)) % len(ctxs)]
            info[c.cid] = ctx
            l, b = split_case(c, ctx)
            lib.add_case(c.cid, l)
            taken = set(IDENT_RE.findall(c.text))
            base.add_case(c.cid, "pub mod %s {\n%s%s}\n" % (c.cid, context(ctx, taken), S.render(c.td, strip=True, extras=False)))
            p.add_case(c.cid, b, "%s::run();" % c.cid)
        bins["b%d" % si] = p
    # baseline
    bdrop = compile_with_lib("c19base", base, {}, rounds=4)
    bad_base = set(bdrop)
    for cid in bad_base:
        chk.inconc("names-not-legal-rust")
    for cid in bad_base:
        log("C19: baseline rejected %s: %s" % (cid, bdrop[cid][0]["message"]))
    live = [c for c in cases if c.cid not in bad_base]
    dropped = compile_with_lib("c19", lib, bins, rounds=8, predrop=bad_base)
    res = H.run_programs("c19", bins)
    obs = {}
    for b, (rc, o, err) in res.items():
        obs.update(o)
    for c in live:
        ctx = info[c.cid]
        if c.cid in dropped:
            e = dropped[c.cid][0]
            hostile = sorted(set(IDENT_RE.findall(c.text)) & set(chk.extra["harvested_identifiers"]))
            sig = "compile|%s|%s|%s" % (c.tag, e.get("code"), re.sub(r"`[^`]*`", "`_`", e["message"])[:60])
            cn = c.td.notes.get("const")
            if cn in hostile and const_clash(dropped[c.cid], cn):
                sig = "const-param-clash|%s" % family(cn)
            chk.violation(sig, "a derive that compiles with neutral names fails in a hostile naming context (%s): %s\n%s\n"
                          "hostile identifiers used: %s\n%s" % (ctx, e["message"], e.get("rendered", "")[:1500], hostile, c.text),
                          {"case.rs": c.text, "context.rs": context(ctx, set(IDENT_RE.findall(c.text))),
                           "diagnostics.json": json.dumps(dropped[c.cid], indent=1)})
            continue
        before = len(chk.violations) + len(chk.known_hits)
        held_before = len(chk.held_keys)
        # the other property's oracle, unchanged; its verdicts are re-labelled as C19 "behaves differently"
        sub = _Proxy(chk, c, ctx)
        c.judge(sub, c, obs, {})
        if sub.violated:
            continue
        if sub.held_flag:
            chk.held(digest(c.text + ctx), True, sub.evals)
            chk.count("%s/%s" % (c.tag, ctx))
            chk.sample({"case": c.cid, "context": ctx, "workload": c.tag, "source": c.text}, limit=4)
        else:
            chk.inconc("behaviour-not-observed")


class _Proxy:
    """adapts another property's judge() to this check"""

    def __init__(self, chk, case, ctx):
        self.chk, self.case, self.ctx = chk, case, ctx
        self.violated = False
        self.held_flag = False
        self.evals = 0
        self.extra = {}
        self.evaluations = 0

    def violation(self, signature, summary, files=None):
        self.violated = True
        return self.chk.violation("behaviour|%s|%s" % (self.case.tag, signature.split("|")[0]),
                                  "behaviour differs in a hostile naming context (%s): %s" % (self.ctx, summary), files)

    def held(self, key, nontrivial=True, evaluations=0):
        self.held_flag = True
        self.evals = evaluations

    def inconc(self, reason, n=1):
        pass

    def count(self, *a, **k):
        pass

    def sample(self, *a, **k):
        pass


def compile_with_lib(name, lib, bins, rounds=6, predrop=(), subcmd="build"):
    """compile the package (library + bins); cases that draw errors anywhere are dropped everywhere."""
    dropped = {c: [{"message": "baseline", "level": "error", "code": None}] for c in predrop}
    progs = dict(bins)
    progs[name] = lib
    for rnd in range(rounds + 1):
        B.setup_d1(name, {b: p.source(dropped) for b, p in bins.items()}, rt=True, lib=lib.source(dropped))
        rc, diags, err = B.cargo_build_d1(name, extra_args=["--lib"] if not bins else ["--lib"], subcmd=subcmd)
        att = H.attribute_diags(progs, diags)
        new = False
        unatt = []
        for tgt, per in att.items():
            for cid, ds in per.items():
                errs = [d for d in ds if d["level"].startswith("error")]
                if not errs:
                    continue
                if cid is None:
                    unatt += errs
                elif cid not in dropped:
                    dropped[cid] = errs
                    new = True
        if rc == 0:
            for c in predrop:
                dropped.pop(c, None) if False else None
            return {c: d for c, d in dropped.items() if c not in predrop}
        if not new:
            raise Inconclusive("build of %s fails with unattributable errors: %s\n%s" %
                               (name, [u["message"] for u in unatt[:3]], err[-1500:]))
    raise Inconclusive("build of %s did not converge" % name)
