"""C12 — explicit bound modes and the type's own generics are honoured verbatim.
Monitor: the header (generic parameters, self type, where-clause) of every impl item of the
in-process expansion, compared with the reference model; D1 compile cross-check on the subset of
cases whose bounds are satisfiable (thorough)."""
import collections
import json

from .. import build as B
from .. import gen as G
from .. import model as M
from .. import shapes as S
from .. import unions as U
from ..common import Check, digest, log, rng_for

PROP = "C12"

CUSTOM_POOL = [
    "{g}: ::core::fmt::Debug", "{g}: Foo", "{g}: ::core::clone::Clone + ::core::marker::Copy",
    "::std::vec::Vec<{g}>: ::core::marker::Sized", "{g}: 'static", "for<'x> &'x {g}: ::core::clone::Clone",
    "[{g}; 3]: ::core::default::Default", "{g}: ::core::convert::Into<u8>", "u8: ::core::marker::Copy",
    "{g}: ::core::cmp::PartialEq<{g}>", "({g}, u8): ::core::marker::Sized",
]


def gen_case(seed, k):
    rng = rng_for(seed, PROP, "case", k)
    if rng.random() < 0.06:
        td = U.random_union(rng, generic=True)
    else:
        ts = G.random_trait_set(rng)
        td = G.random_type(rng, ts, G.Opts(rich=True, generics=True, bounds=False))
    if td.kind != "union" and rng.random() < 0.1:
        G.add_self_recursive_field(rng, td)
    if td.kind != "union" and rng.random() < 0.2:
        G.add_token_only_field(rng, td)
    typarams = [p["name"] for p in td.params if p["kind"] == "ty"]
    ts = set(td.traits)
    # override bound modes (the result need not type-check: D2 only looks at tokens)
    for t in td.traits:
        if t in ("Deref", "DerefMut"):
            continue
        if t == "Copy" and "Clone" in ts or t == "Eq" and "PartialEq" in ts or t == "PartialOrd" and "Ord" in ts:
            continue
        if td.kind == "union" and t in ("Debug", "PartialEq", "Hash"):
            continue

        def pick():
            r = rng.random()
            if r < 0.25:
                return None
            if r < 0.45:
                return ("all",)
            if r < 0.65:
                return ("none",)
            if rng.random() < 0.08:
                return ("custom", [])     # `bound()`: an explicit list without predicates
            n = rng.randint(1, 3)
            preds = [rng.choice(CUSTOM_POOL).format(g=rng.choice(typarams or ["u16"])) for _ in range(n)]
            if rng.random() < 0.2:
                # predicates that differ only in a lifetime are different predicates
                g = rng.choice(typarams or ["u16"])
                tw = rng.choice(["{g}: Foo + {l}", "{g}: Tr<{l}>", "&{l} {g}: Foo", "{g}: Foo<&{l} u8>"])
                preds += [tw.format(g=g, l=l) for l in rng.sample(["'static", "'q", "'r"], 2)]
                rng.shuffle(preds)
            return ("custom", preds)
        if t == "Into":
            for e in td.tsem["Into"]["targets"]:
                b = pick()
                if b is not None:
                    e["bound"] = b
        else:
            b = pick()
            if b is not None:
                td.tsem.setdefault(t, {})["bound"] = b
            else:
                td.tsem.setdefault(t, {}).pop("bound", None)
    text = S.render(td, rng_for(seed, PROP, "spell", k), extras=False).replace("::educe::Educe", "Educe")
    return td, text


def ms(xs):
    return collections.Counter(M.nows(x) for x in xs)


def judge(chk, cid, td, text, res):
    if res is None or res.get("st") in ("harness", "crash", "timeout"):
        chk.inconc("runner-" + (res or {}).get("st", "missing"))
        return
    if res["st"] != "ok":
        # refusal of a documented bound form belongs to C01/C13; here it only means nothing to judge
        chk.inconc("not-accepted:" + res["st"])
        log("C12: case not accepted (%s): %s\n%s" % (res["st"], res.get("msg"), text))
        return
    items = res.get("items", [])
    want = M.expected_impls(td)
    hp = [M.nows(x) for x in M.header_params(td)]
    self_ty = M.nows(td.name + (("<" + ", ".join(p["name"] for p in td.params) + ">") if td.params else ""))
    user_where = list(td.where)
    problems = []
    got_keys = collections.Counter()
    for it in items:
        if "hdr_error" in it:
            problems.append("impl header does not parse: %s" % it["hdr_error"])
            continue
        if [M.nows(x) for x in it["params"]] != hp:
            problems.append("generic parameters of `impl %s` are %s, expected %s" %
                            (it.get("trait"), it["params"], M.header_params(td)))
        if M.nows(it["self"]) != self_ty:
            problems.append("self type %s != %s" % (it["self"], self_ty))
        tr = M.nows(it["trait"]) if it.get("trait") else None
        got_keys[(tr, frozenset(ms(it["where"]).items()))] += 1
        # helper impls nested in fn bodies (the Debug wrapper of a `method(..)` field) must reproduce the type's
        # parameters and where-clause too, and add nothing
        for nh in it.get("nested", []):
            if "hdr_error" in nh:
                problems.append("nested impl header does not parse: %s (%s)" % (nh["hdr_error"], nh.get("hdr")))
                continue
            import re as _re
            if not _re.search(r"(?<![A-Za-z0-9_])%s(?![A-Za-z0-9_])" % _re.escape(td.name), nh.get("self", "")):
                # a helper that does not mention the type (the raw-string key of the map form) has no generics to honour
                continue
            if [M.nows(x) for x in nh["params"]] != hp:
                problems.append("generic parameters of the nested helper impl are %s, expected %s" % (nh["params"], M.header_params(td)))
            if ms(nh["where"]) != ms(user_where):
                problems.append("where-clause of the nested helper impl is %s, expected the type's own %s" % (nh["where"], user_where))
    want_keys = collections.Counter()
    for tr, preds in want:
        want_keys[(M.nows(tr) if tr else None, frozenset(ms(user_where + preds).items()))] += 1
    if got_keys != want_keys and not problems:
        missing = want_keys - got_keys
        extra = got_keys - want_keys
        for (tr, w) in missing:
            problems.append("expected impl %s where %s" % (tr, sorted(dict(w))))
        for (tr, w) in extra:
            problems.append("observed impl %s where %s" % (tr, sorted(dict(w))))
    if problems:
        # signature: the trait + bound mode involved in the first mismatch
        modes = {t: (td.tsem.get(t, {}).get("bound") or ("auto",))[0] for t in td.traits}
        first = problems[0]
        sig = "header|%s|%s" % (td.kind, first[:60].split(" where ")[0])
        chk.violation(sig, "impl headers differ from the model:\n%s\nmodes=%s\ninput:\n%s" %
                      ("\n".join(problems[:8]), modes, text),
                      {"input.rs": text, "items.json": json.dumps(items, indent=1),
                       "descriptor.json": json.dumps(S.describe(td), indent=1, default=str)})
        return
    nontrivial = bool(td.params) and any((td.tsem.get(t, {}).get("bound") is not None) for t in td.traits) \
        or any(e.get("bound") for e in td.tsem.get("Into", {}).get("targets", []))
    chk.held(digest(text), bool(nontrivial), len(items))
    for t in td.traits:
        b = td.tsem.get(t, {}).get("bound")
        chk.count("%s:%s" % (t, (b or ("auto",))[0]))
    if nontrivial:
        chk.sample({"case": cid, "input": text,
                    "impl_headers": [{"trait": i.get("trait"), "params": i.get("params"), "where": i.get("where")}
                                     for i in items]}, limit=4)


def main(tier, seed, scale=1.0):
    chk = Check(PROP, tier, seed)
    n = int((4000 if tier == "quick" else 80000) * scale)
    chk.rule = ("random generic definitions (two lifetimes, two type parameters with inline bounds and "
                "defaults, const parameter, user where-clause) x all traits x bound modes "
                "(auto / bound(*) / bound = false|\"\" / explicit predicates in list and string form, per "
                "Into target too); every impl header of the in-process expansion is compared with the "
                "model; non-trivial = generic type with at least one explicit bound mode; distinct by text")
    chk.assumptions = ["token-level observation through proc-macro2's fallback (in-process); header "
                       "parsing by syn", "auto-mode predicates follow DESIGN.md appendix / vlib/model.py"]
    batch = 4000
    for k0 in range(0, n, batch):
        cases = []
        for k in range(k0, min(n, k0 + batch)):
            td, text = gen_case(seed, k)
            cases.append(("c%d" % k, td, text))
        res = B.run_inproc([(cid, text) for cid, td, text in cases], items=True)
        for cid, td, text in cases:
            judge(chk, cid, td, text, res.get(cid))
    return chk.finish()
