"""C10 — Into returns the designated field for every requested target type (and for no other).
Monitor: value returned by Into::<T>::into for each requested T, each variant and value, through the
real macro; trait-resolution probes (`Ty: Into<X>` as a run-time bool) for requested and
un-requested X; oracle: python selection rule (marker -> sole field -> unique same-typed field)
and conversion model (custom method / unchanged / Into)."""
import json

from .. import behave as BH
from .. import gen as G
from .. import shapes as S
from ..common import Check, digest, log, rng_for

PROP = "C10"
RT = S.RT
UNREQUESTED = ["u32", "i64", "::std::string::String", "(u8, u8)"]


def probe(ty, tr):
    return ("{ struct Probe<X: ?Sized>(::core::marker::PhantomData<X>); trait Fb { const V: bool = false; } "
            "impl<X: ?Sized> Fb for Probe<X> {} impl<X: %s> Probe<X> { const V: bool = true; } <Probe<%s>>::V }" % (tr, ty))


def tname(t):
    return {"u8": "u8", "u16": "u16", RT + "T": "T"}.get(t, "W")


def gen_case(seed, k, cap):
    rng = rng_for(seed, PROP, "case", k)
    ts = ["Into"] + rng.sample(["Debug", "Clone", "PartialEq", "Default", "Copy"], rng.randint(0, 2))
    if "Copy" in ts and "Clone" not in ts:
        ts.append("Clone")
    rng.shuffle(ts)
    td = G.random_type(rng, ts, G.Opts(p_attr=0.5, max_fields=4, max_variants=4, p_partial=0.0))
    text = S.render(td, rng_for(seed, PROP, "spell", k), extras=False)
    vals = S.values(td, cap, rng)
    targets = [e["ty"] for e in td.tsem["Into"]["targets"]]
    drive = []
    for t in targets:
        drive.append("""        for i in 0..%d {
            let x = mk(i, 0);
            %sbegin();
            let r: %s = ::core::convert::Into::into(x);
            %sobs("c%d", "into_%s", i, -1, &%spfp(&r));
        }""" % (len(vals), RT, t, RT, k, tname(t), RT))
    pr = []
    for t in ["u8", "u16", RT + "W", RT + "T"] + UNREQUESTED:
        pr.append("(%s) as u8" % probe(td.inst(), "::core::convert::Into<%s>" % t))
    drive.append("        let p: Vec<u8> = vec![%s];\n        %sbegin(); %sobs(\"c%d\", \"probes\", 0, -1, &format!(\"{:?}\", p));"
                 % (", ".join(pr), RT, RT, k))
    return BH.Case("c%d" % k, td, text, vals, drive="\n".join(drive), info={"targets": targets})


def expected(td, v, tgt):
    vi, fs = v
    var = td.variants[vi]
    garg = td.notes["garg"]
    # selection: marker -> sole field -> unique field of the target type
    marked = [f for f in var.fields if any(e["ty"] == tgt for e in f.sem.get("Into", []))]
    if len(var.fields) == 1:
        f = var.fields[0]
    elif marked:
        f = marked[0]
    else:
        same = [f for f in var.fields if f.ty == tgt]
        assert len(same) == 1, "generator produced an ambiguous request"
        f = same[0]
    method = None
    for e in f.sem.get("Into", []):
        if e["ty"] == tgt:
            method = e.get("method")
    a = fs[f.slot]
    short = tname(tgt)
    if method:
        return {"u8": "u8:%d" % (a + 100), "u16": "u16:%d" % (a + 1000), "W": "W:%d" % (a + 5000),
                "T": "T8.88.%d.0" % a}[short]
    if short == "T":
        return "T0.%d.%d.0" % (f.slot, a)
    leaf = BH.leaf_of(f.kind, garg) if f.kind.key != "U8" else "U8"
    if f.ty == tgt:
        return "%s:%d" % (short, a)
    table = {("T", "u8"): 10, ("Ct", "u8"): 20, ("T", "u16"): 30, ("Ct", "u16"): 40, ("U8", "u16"): 0,
             ("T", "W"): 200, ("Ct", "W"): 300, ("U8", "W"): 500}
    return "%s:%d" % (short, a + table[(leaf, short)])


def judge(chk, c, obs, dropped):
    td = c.td
    if c.cid in dropped:
        chk.inconc("does-not-compile (see C01)")
        log("C10: case dropped: %s\n%s" % (dropped[c.cid][0]["rendered"] or dropped[c.cid][0]["message"], c.text))
        return
    o = obs.get(c.cid)
    if o is None or not o.began:
        chk.inconc("not-run")
        return
    files = {"case.rs": c.module(), "descriptor.json": json.dumps(S.describe(td), indent=1, default=str),
             "values.json": json.dumps(c.vals)}
    if o.panic is not None or not o.ended:
        chk.violation("panic|" + (o.panic or "abort")[:60], "into panicked/aborted: %s\n%s" % (o.panic, c.text), files)
        return
    seen = 0
    probes = None
    for op, i, j, res, ev in o.recs:
        if op == "probes":
            probes = json.loads(res[0])
            continue
        tgt = {"into_u8": "u8", "into_u16": "u16", "into_W": RT + "W", "into_T": RT + "T"}[op]
        want = expected(td, c.vals[i], tgt)
        seen += 1
        if res[0] != want:
            chk.violation("into-value|%s|%s" % (td.kind, tname(tgt)), "x.into::<%s>() is not the designated field's conversion\n"
                          "value = %s\nobserved: %s\nexpected: %s\nevents: %s\n%s" % (tgt, c.vals[i], res[0], want, ev, c.text), files)
            return
    if probes is None or seen != len(c.vals) * len(c.info["targets"]):
        chk.inconc("incomplete-output")
        return
    allt = ["u8", "u16", RT + "W", RT + "T"] + UNREQUESTED
    for t, p in zip(allt, probes):
        want = t in c.info["targets"]
        if bool(p) != want:
            chk.violation("into-impl-set|%s" % ("missing" if want else "extra"),
                          "`%s: Into<%s>` is %s, expected %s (requested targets: %s)\n%s" %
                          (td.inst(), t, bool(p), want, c.info["targets"], c.text), files)
            return
    multi = any(len(v.fields) >= 2 for v in td.variants)
    chk.held(digest(c.text), multi or len(c.info["targets"]) >= 2, seen + len(probes))
    chk.count("%s/targets=%d" % (td.kind, len(c.info["targets"])))
    if multi:
        chk.sample({"case": c.cid, "source": c.text, "targets": c.info["targets"],
                    "history_excerpt": ["%s %s -> %s [%s]" % (op, c.vals[i], res[0], ev) for op, i, j, res, ev in o.recs[:3]]},
                   limit=3)


def main(tier, seed, scale=1.0):
    chk = Check(PROP, tier, seed)
    n = int((320 if tier == "quick" else 25000) * scale)
    cap = 12 if tier == "quick" else 24
    chk.rule = ("random struct/enum definitions with 1..3 Into targets out of {u8, u16, W}; designation by marker (with "
                "and without method), sole field, or unique same-typed field; every variant and value converted into "
                "every requested target; probes for 3 candidate + 4 foreign target types; non-trivial = some variant "
                "has >= 2 fields or >= 2 targets; distinct by source text")
    chk.assumptions = ["conversion constants are those of verif_rt's From impls and custom methods"]
    batch = 640
    for k0 in range(0, n, batch):
        cases = [gen_case(seed, k, cap) for k in range(k0, min(n, k0 + batch))]
        obs, dropped, crashed, _, _ = BH.execute("c10", cases)
        for b, (rc, err) in crashed.items():
            log("C10: binary %s exited with %s: %s" % (b, rc, err[-500:]))
        for c in cases:
            judge(chk, c, obs, dropped)
    return chk.finish()
