"""C10 — Into returns the designated field for every requested target type (and for no other).
Monitor: value returned by Into::<T>::into for each requested T, each variant and value, through the
real macro; trait-resolution probes (`Ty: Into<X>` as a run-time bool) for requested and
un-requested X; oracle: python selection rule (marker -> sole field -> unique same-typed field)
and conversion model (custom method / unchanged / Into)."""
import json
import re

from .. import behave as BH
from .. import gen as G
from .. import shapes as S
from ..common import Check, digest, log, rng_for

PROP = "C10"
RT = S.RT
UNREQUESTED = ["u32", "i64", "::std::string::String", "(u8, u8)"]


def probe(ty, tr):
    return ("{ struct Probe<X: ?Sized>(::core::marker::PhantomData<X>); trait Fb { const V: bool = false; } "
            "impl<X: ?Sized> Fb for Probe<X> {} impl<X: %s> Probe<X> { const V: bool = true; } <Probe<%s>>::V }" % (tr, ty))


def tname(t):
    return {"u8": "u8", "u16": "u16", RT + "T": "T"}.get(t, "W")


def gen_case(seed, k, cap):
    rng = rng_for(seed, PROP, "case", k)
    ts = ["Into"] + rng.sample(["Debug", "Clone", "PartialEq", "Default", "Copy"], rng.randint(0, 2))
    if "Copy" in ts and "Clone" not in ts:
        ts.append("Clone")
    rng.shuffle(ts)
    td = G.random_type(rng, ts, G.Opts(p_attr=0.5, max_fields=4, max_variants=4, p_partial=0.0))
    text = S.render(td, rng_for(seed, PROP, "spell", k), extras=False)
    vals = S.values(td, cap, rng)
    targets = [e["ty"] for e in td.tsem["Into"]["targets"]]
    drive = []
    for t in targets:
        drive.append("""        for i in 0..%d {
            let x = mk(i, 0);
            %sbegin();
            let r: %s = ::core::convert::Into::into(x);
            %sobs("c%d", "into_%s", i, -1, &%spfp(&r));
        }""" % (len(vals), RT, t, RT, k, tname(t), RT))
    pr = []
    for t in ["u8", "u16", RT + "W", RT + "T"] + UNREQUESTED:
        pr.append("(%s) as u8" % probe(td.inst(), "::core::convert::Into<%s>" % t))
    drive.append("        let p: Vec<u8> = vec![%s];\n        %sbegin(); %sobs(\"c%d\", \"probes\", 0, -1, &format!(\"{:?}\", p));"
                 % (", ".join(pr), RT, RT, k))
    return BH.Case("c%d" % k, td, text, vals, drive="\n".join(drive), info={"targets": targets})


def expected(td, v, tgt):
    vi, fs = v
    var = td.variants[vi]
    garg = td.notes["garg"]
    # selection: marker -> sole field -> unique field of the target type
    marked = [f for f in var.fields if any(e["ty"] == tgt for e in f.sem.get("Into", []))]
    if len(var.fields) == 1:
        f = var.fields[0]
    elif marked:
        f = marked[0]
    else:
        same = [f for f in var.fields if f.ty == tgt]
        assert len(same) == 1, "generator produced an ambiguous request"
        f = same[0]
    method = None
    for e in f.sem.get("Into", []):
        if e["ty"] == tgt:
            method = e.get("method")
    a = fs[f.slot]
    short = tname(tgt)
    if method:
        return {"u8": "u8:%d" % (a + 100), "u16": "u16:%d" % (a + 1000), "W": "W:%d" % (a + 5000),
                "T": "T8.88.%d.0" % a}[short]
    if short == "T":
        return "T0.%d.%d.0" % (f.slot, a)
    leaf = BH.leaf_of(f.kind, garg) if f.kind.key != "U8" else "U8"
    if f.ty == tgt:
        return "%s:%d" % (short, a)
    table = {("T", "u8"): 10, ("Ct", "u8"): 20, ("T", "u16"): 30, ("Ct", "u16"): 40, ("U8", "u16"): 0,
             ("T", "W"): 200, ("Ct", "W"): 300, ("U8", "W"): 500}
    return "%s:%d" % (short, a + table[(leaf, short)])


def judge(chk, c, obs, dropped):
    td = c.td
    if c.cid in dropped:
        chk.inconc("does-not-compile (see C01)")
        log("C10: case dropped: %s\n%s" % (dropped[c.cid][0]["rendered"] or dropped[c.cid][0]["message"], c.text))
        return
    o = obs.get(c.cid)
    if o is None or not o.began:
        chk.inconc("not-run")
        return
    files = {"case.rs": c.module(), "descriptor.json": json.dumps(S.describe(td), indent=1, default=str),
             "values.json": json.dumps(c.vals)}
    if o.panic is not None or not o.ended:
        chk.violation("panic|" + (o.panic or "abort")[:60], "into panicked/aborted: %s\n%s" % (o.panic, c.text), files)
        return
    seen = 0
    probes = None
    for op, i, j, res, ev in o.recs:
        if op == "probes":
            probes = json.loads(res[0])
            continue
        tgt = {"into_u8": "u8", "into_u16": "u16", "into_W": RT + "W", "into_T": RT + "T"}[op]
        want = expected(td, c.vals[i], tgt)
        seen += 1
        if res[0] != want:
            chk.violation("into-value|%s|%s" % (td.kind, tname(tgt)), "x.into::<%s>() is not the designated field's conversion\n"
                          "value = %s\nobserved: %s\nexpected: %s\nevents: %s\n%s" % (tgt, c.vals[i], res[0], want, ev, c.text), files)
            return
    if probes is None or seen != len(c.vals) * len(c.info["targets"]):
        chk.inconc("incomplete-output")
        return
    allt = ["u8", "u16", RT + "W", RT + "T"] + UNREQUESTED
    for t, p in zip(allt, probes):
        want = t in c.info["targets"]
        if bool(p) != want:
            chk.violation("into-impl-set|%s" % ("missing" if want else "extra"),
                          "`%s: Into<%s>` is %s, expected %s (requested targets: %s)\n%s" %
                          (td.inst(), t, bool(p), want, c.info["targets"], c.text), files)
            return
    multi = any(len(v.fields) >= 2 for v in td.variants)
    chk.held(digest(c.text), multi or len(c.info["targets"]) >= 2, seen + len(probes))
    chk.count("%s/targets=%d" % (td.kind, len(c.info["targets"])))
    if multi:
        chk.sample({"case": c.cid, "source": c.text, "targets": c.info["targets"],
                    "history_excerpt": ["%s %s -> %s [%s]" % (op, c.vals[i], res[0], ev) for op, i, j, res, ev in o.recs[:3]]},
                   limit=3)


# ---- second family: structurally rich target types, spelled with different spacing at the attribute and at the field
# (type text variants), value expression of a field at position i, is Copy
RICH = [
    (["Vec<Vec<u8>>", "Vec<Vec<u8> >", "Vec < Vec < u8 > >"], "vec![vec![{i}u8]]"),
    (["Option<&'static str>", "Option<& 'static str>", "Option < &'static str >"], "Some([\"a\", \"b\", \"c\", \"d\", \"e\", \"f\", \"g\", \"h\", \"i\", \"j\"][{i}])"),
    (["&'static str", "& 'static str"], "[\"p\", \"q\", \"r\", \"s\", \"t\", \"u\", \"v\", \"w\", \"x\", \"y\"][{i}]"),
    (["(u8, u16)", "(u8,u16)", "( u8 , u16 )"], "({i}u8, {i}u16 + 300)"),
    (["[u8; 2]", "[u8;2]", "[ u8 ; 2 ]"], "[{i}u8, 9]"),
    (["::std::string::String", ":: std :: string :: String"], "::std::string::String::from([\"sa\", \"sb\", \"sc\", \"sd\", \"se\", \"sf\", \"sg\", \"sh\", \"si\", \"sj\"][{i}])"),
    (["Box<[u16]>", "Box<[ u16 ]>", "Box < [u16] >"], "vec![{i}u16, 7].into_boxed_slice()"),
    (["Option<Option<u32>>", "Option<Option<u32> >"], "Some(Some({i}u32))"),
    (["Vec<G>", "Vec < G >"], "vec![<G as ::core::convert::From<u8>>::from({i}u8)]"),
    (["Option<G>", "Option < G >"], "Some(<G as ::core::convert::From<u8>>::from({i}u8 + 40))"),
    (["[G; N]", "[G;N]", "[ G ; N ]"], "[<G as ::core::convert::From<u8>>::from({i}u8 + 80); N]"),
    (["&'a [G]", "& 'a [G]", "&'a [ G ]"], "::core::slice::from_ref({leak}(<G as ::core::convert::From<u8>>::from({i}u8 + 120)))"),
    (["&'a &'static str", "& 'a & 'static str"], "{leak}([\"p\", \"q\", \"r\", \"s\", \"t\", \"u\", \"v\", \"w\", \"x\", \"y\"][{i}])"),
    (["u64", "u64"], "{i}u64 + 1000"),
    (["i128", "i128"], "-({i}i128)"),
]
# spellings that are legal in an attribute only (an elided lifetime is read as 'static there; a field type cannot elide)
ATTR_ONLY = {"&'a &'static str": ["&'a &str", "& 'a &str"], "&'static str": ["&str", "& str"]}


def attr_spellings(p):
    sp = RICH[p][0]
    return sp + ATTR_ONLY.get(sp[0], [])


DECOY = [("bool", "true"), ("char", "'x'"), ("f32", "1.5f32"), ("()", "()"), ("u32", "{i}u32"), ("Vec<u8>", "vec![{i}u8]")]


def rich_case(seed, k):
    rng = rng_for(seed, PROP, "rich", k)
    nt = rng.randint(1, 3)
    while True:
        picks = rng.sample(range(len(RICH)), nt)
        heads = [RICH[p][0][0] for p in picks]
        # impls for two targets must not overlap (coherence): a target mentioning G excludes whatever it unifies with
        if "Vec<G>" in heads and "Vec<Vec<u8>>" in heads:
            continue
        if "Option<G>" in heads and any(h.startswith("Option<") and h != "Option<G>" for h in heads):
            continue
        if "[G; N]" in heads and "[u8; 2]" in heads or False:
            continue
        break
    uses = lambda s: any(re.search(r"(?<![A-Za-z0-9_'])%s(?![A-Za-z0-9_])" % s, RICH[p][0][0]) for p in picks)
    need_g, need_n, need_a = uses("G"), uses("N"), any("'a" in RICH[p][0][0] for p in picks)
    params = (["'a"] if need_a else []) + (["G"] if need_g else []) + (["const N: usize"] if need_n else [])
    decl = "<%s>" % ", ".join(params) if params else ""
    if need_g:
        decl = decl.replace("G", "G: ::core::fmt::Debug + ::core::convert::From<u8> + ::core::marker::Copy" + (" + 'a" if need_a else ""), 1)
    inst = "<%s>" % ", ".join((["'static"] if need_a else []) + (["u64"] if need_g else []) + (["3"] if need_n else [])) if params else ""
    enum = rng.random() < 0.5
    nvar = rng.randint(1, 3) if enum else 1
    variants = []
    for vi in range(nvar):
        named = rng.random() < 0.5
        fields = []  # (type text, value template, designation for target index or None, marker?)
        sole = nt == 1 and rng.random() < 0.2
        for ti, p in enumerate(picks):
            sp, val = RICH[p]
            marker = (not sole) and rng.random() < 0.4
            fields.append({"ty": rng.choice(sp), "val": val, "tgt": ti, "marker": marker})
            if marker and rng.random() < 0.6:
                # a same-typed decoy that the marker must win against
                fields.append({"ty": rng.choice(sp), "val": val, "tgt": None, "marker": False})
        if not sole:
            for _ in range(rng.randint(0, 2)):
                ty, val = rng.choice(DECOY)
                fields.append({"ty": ty, "val": val, "tgt": None, "marker": False})
        rng.shuffle(fields)
        for i, f in enumerate(fields):
            f["i"] = i
            f["name"] = "f%d" % i if named else None
        variants.append({"name": "V%d" % vi, "named": named, "fields": fields})
    tgt_sp = [rng.choice(attr_spellings(p)) for p in picks]

    def into_attr(ti, sp):
        return "Into(%s)" % sp
    type_attrs = [into_attr(ti, sp) for ti, sp in enumerate(tgt_sp)]
    rng.shuffle(type_attrs)
    if rng.random() < 0.5:
        head = "#[educe(%s)]\n" % ", ".join(type_attrs)
    else:
        head = "".join("#[educe(%s)]\n" % a for a in type_attrs)

    def fdecl(f):
        a = ""
        if f["marker"]:
            a = "#[educe(Into(%s))] " % rng.choice(attr_spellings(picks[f["tgt"]]))
        return "%s%s%s" % (a, ("pub %s: " % f["name"]) if f["name"] else "pub ", f["ty"])
    if not enum:
        v = variants[0]
        if v["named"]:
            body = "pub struct Ty%s {\n%s}\n" % (decl, "".join("    %s,\n" % fdecl(f) for f in v["fields"]))
        else:
            body = "pub struct Ty%s(\n%s);\n" % (decl, "".join("    %s,\n" % fdecl(f) for f in v["fields"]))
    else:
        vs = []
        for v in variants:
            fl = "".join("        %s,\n" % fdecl(f).replace("pub ", "") for f in v["fields"])
            vs.append("    %s %s\n%s    %s,\n" % (v["name"], "{" if v["named"] else "(", fl, "}" if v["named"] else ")"))
        body = "pub enum Ty%s {\n%s}\n" % (decl, "".join(vs))
    text = "#[derive(::educe::Educe)]\n" + head + body
    # constructor + drive: the expected value is built by the same expression the designated field was built with
    leak = "%sleak" % RT
    gl = []
    drive = []
    fnparams = decl.replace("::core::marker::Copy", "::core::marker::Copy + 'static")
    ty = "Ty" + ("<%s>" % ", ".join(p.split(":")[0].replace("const ", "").strip() for p in params) if params else "")
    for vi, v in enumerate(variants):
        exprs = [f["val"].format(i=f["i"] + 1, leak=leak) for f in v["fields"]]
        path = "Ty::%s" % v["name"] if enum else "Ty"
        if v["named"]:
            ctor = "%s { %s }" % (path, ", ".join("%s: %s" % (f["name"], e) for f, e in zip(v["fields"], exprs)))
        else:
            ctor = "%s(%s)" % (path, ", ".join(exprs))
        gl.append("pub fn mk%d%s() -> %s { %s }\n" % (vi, fnparams, ty, ctor))
        for ti, p in enumerate(picks):
            des = [f for f in v["fields"] if f["tgt"] == ti]
            assert len(des) == 1
            f = des[0]
            tt = RICH[p][0][0]
            gl.append("pub fn want%d_%d%s() -> %s { %s }\n" % (vi, ti, fnparams, tt, f["val"].format(i=f["i"] + 1, leak=leak)))
            inner = ("::<%s>" % ", ".join((["G"] if need_g else []) + (["N"] if need_n else []))) if (need_g or need_n) else ""
            gl.append("pub fn got%d_%d%s() -> %s { ::core::convert::Into::into(mk%d%s()) }\n" % (vi, ti, fnparams, tt, vi, inner))
            turbofish = ("::" + "<%s>" % ", ".join((["u64"] if need_g else []) + (["3"] if need_n else []))) if (need_g or need_n) else ""
            drive.append("        %sbegin(); %sobs(\"r%d\", \"rich\", %d, %d, &format!(\"{:?}|{:?}\", got%d_%d%s(), want%d_%d%s()));"
                         % (RT, RT, k, vi, ti, vi, ti, turbofish, vi, ti, turbofish))
    glue = "".join(gl)
    c = BH.Case("r%d" % k, None, text, [], glue=glue, drive="\n".join(drive),
                info={"rich": True, "n": nvar * nt, "targets": [RICH[p][0][0] for p in picks], "enum": enum})
    from .. import harness as H
    c.module = lambda c=c: H.module(c.cid, c.text + c.glue +
                                    "pub fn run() {\n    %sguarded(\"%s\", || {\n%s\n    });\n}\n" % (RT, c.cid, c.drive))
    return c


def judge_rich(chk, c, obs, dropped):
    if c.cid in dropped:
        d = dropped[c.cid][0]
        chk.violation("rich-target-refused|%s" % (d.get("code") or d["message"][:50]),
                      "a request whose target types are spelled with different spacing than the field types does not compile:\n%s\n%s"
                      % (d.get("rendered") or d["message"], c.text), {"case.rs": c.module()})
        return
    o = obs.get(c.cid)
    if o is None or not o.began:
        chk.inconc("not-run")
        return
    files = {"case.rs": c.module()}
    if o.panic is not None or not o.ended:
        chk.violation("panic|" + (o.panic or "abort")[:60], "into panicked/aborted: %s\n%s" % (o.panic, c.text), files)
        return
    if len(o.recs) != c.info["n"]:
        chk.inconc("incomplete-output")
        return
    for op, i, j, res, ev in o.recs:
        got, want = res[0].split("|", 1)
        if got != want:
            chk.violation("into-value|rich|%s" % c.info["targets"][j], "x.into::<%s>() of variant %d is %s, the designated field holds %s\n%s"
                          % (c.info["targets"][j], i, got, want, c.text), files)
            return
    chk.held(digest(c.text), True, len(o.recs))
    chk.count("rich/%s/targets=%d" % ("enum" if c.info["enum"] else "struct", len(c.info["targets"])))
    chk.sample({"case": c.cid, "source": c.text, "targets": c.info["targets"],
                "history_excerpt": ["variant %d target %d: got|want = %s" % (i, j, res[0]) for op, i, j, res, ev in o.recs[:3]]},
               limit=5)


def main(tier, seed, scale=1.0):
    chk = Check(PROP, tier, seed)
    n = int((960 if tier == "quick" else 25000) * scale)
    cap = 12 if tier == "quick" else 24
    chk.rule = ("random struct/enum definitions with 1..3 Into targets out of {u8, u16, W}; designation by marker (with "
                "and without method), sole field, or unique same-typed field; every variant and value converted into "
                "every requested target; probes for 3 candidate + 4 foreign target types; non-trivial = some variant "
                "has >= 2 fields or >= 2 targets; distinct by source text")
    chk.assumptions = ["conversion constants are those of verif_rt's From impls and custom methods"]
    batch = 640
    for k0 in range(0, n, batch):
        cases = [gen_case(seed, k, cap) for k in range(k0, min(n, k0 + batch))]
        cases += [rich_case(seed, k) for k in range(k0 // 2, min(n, k0 + batch) // 2)]
        obs, dropped, crashed, _, _ = BH.execute("c10", cases)
        for b, (rc, err) in crashed.items():
            log("C10: binary %s exited with %s: %s" % (b, rc, err[-500:]))
        for c in cases:
            (judge_rich if c.info.get("rich") else judge)(chk, c, obs, dropped)
    return chk.finish()
