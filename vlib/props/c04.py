"""C04 — enum variants order by declared discriminant, never by memory layout.
Monitor: cmp / partial_cmp of educed Ord/PartialOrd on all ordered pairs of values of enums drawn
from a layout-diverse grammar (payload types with and without niches, zero-sized payloads, every
repr, explicit discriminants), each pair compared as locals, boxed, and inside #[repr(C)] wrappers
with different trailing bytes; natively (debug: rustc's UB checks are on; release), under Miri
(any UB report is a violation) and under AddressSanitizer (thorough).  Oracle: discriminants
computed by Rust's rule from the descriptor; same-variant pairs ordered by their fields."""
import json
import os
import re

from .. import behave as BH
from .. import build as B
from .. import harness as H
from ..common import NCPU, WORK, Check, Inconclusive, base_env, digest, log, rng_for, run

PROP = "C04"

# payload types: (type text, [(value expr, sort key)]) — sort keys follow the type's own Ord
PAYLOADS = {
    "u8": [("0u8", 0), ("1u8", 1), ("200u8", 200)],
    "u16": [("0u16", 0), ("300u16", 300)],
    "u32": [("0u32", 0), ("70000u32", 70000)],
    "u64": [("1u64", 1), ("u64::MAX", 2 ** 64 - 1)],
    "u128": [("0u128", 0), ("u128::MAX", 2 ** 128 - 1)],
    "i8": [("-1i8", -1), ("1i8", 1)],
    "bool": [("false", 0), ("true", 1)],
    "char": [("'a'", 97), ("'\\u{10FFFF}'", 0x10FFFF)],
    "&'static u8": [("&5u8", 5), ("&9u8", 9)],
    "::core::num::NonZeroU8": [("::core::num::NonZeroU8::new(1).unwrap()", 1), ("::core::num::NonZeroU8::new(255).unwrap()", 255)],
    "::core::option::Option<u8>": [("::core::option::Option::None", (0, 0)), ("::core::option::Option::Some(0u8)", (1, 0)),
                                   ("::core::option::Option::Some(9u8)", (1, 9))],
    "::core::option::Option<::std::boxed::Box<u8>>": [("::core::option::Option::None", (0, 0)),
                                                    ("::core::option::Option::Some(::std::boxed::Box::new(3u8))", (1, 3))],
    "super::Small": [("super::Small::A", 0), ("super::Small::B", 1), ("super::Small::C", 2)],
    "()": [("()", 0)],
    "[u8; 0]": [("[]", 0)],
    "::core::cmp::Ordering": [("::core::cmp::Ordering::Less", -1), ("::core::cmp::Ordering::Greater", 1)],
    "G": [("1u16", 1), ("40000u16", 40000)],
}
INT_RANGE = {"u8": (0, 255), "i8": (-128, 127), "u16": (0, 65535), "i16": (-32768, 32767), "u32": (0, 2 ** 32 - 1),
             "i32": (-2 ** 31, 2 ** 31 - 1), "u64": (0, 2 ** 64 - 1), "i64": (-2 ** 63, 2 ** 63 - 1),
             "usize": (0, 2 ** 64 - 1), "isize": (-2 ** 63, 2 ** 63 - 1)}
VN = ["A", "B", "C", "D", "E"]


def gen_enum(seed, k):
    rng = rng_for(seed, PROP, "case", k)
    nv = rng.choice([1, 1, 2, 2, 3, 3, 4, 5])
    all_unit = rng.random() < 0.3
    generic = rng.random() < 0.2 and not all_unit
    variants = []
    for i in range(nv):
        if all_unit or rng.random() < 0.3:
            variants.append({"name": VN[i], "style": "unit", "fields": []})
            continue
        style = rng.choice(["tuple", "named"])
        nf = rng.choice([1, 1, 2])
        pool = [p for p in PAYLOADS if p != "G" or generic]
        fields = [rng.choice(pool) for _ in range(nf)]
        variants.append({"name": VN[i], "style": style, "fields": fields})
    if generic and not any("G" in v["fields"] for v in variants):
        tgt = [v for v in variants if v["style"] != "unit"]
        if tgt:
            rng.choice(tgt)["fields"][0] = "G"
        else:
            generic = False
    has_fields = any(v["fields"] for v in variants)
    # repr
    int_reprs = list(INT_RANGE)
    r = rng.random()
    reprs = []
    int_repr = None
    if r < 0.35:
        pass
    elif r < 0.65:
        int_repr = rng.choice(int_reprs)
        reprs = [int_repr]
    elif r < 0.77:
        reprs = ["C"]
    elif r < 0.87 and has_fields:
        int_repr = rng.choice(int_reprs)
        reprs = rng.choice([["C", int_repr], [int_repr, "C"], ["C, " + int_repr]])
    else:
        reprs = ["align(%d)" % rng.choice([1, 2, 8, 16])]
        if rng.random() < 0.5 and nv > 0:
            int_repr = rng.choice(int_reprs)
            reprs.append(int_repr)
            if rng.random() < 0.5:
                # both hints in ONE attribute list, in either order
                two = [reprs[0], int_repr]
                rng.shuffle(two)
                reprs = [", ".join(two)]
    # discriminants: explicit values need a primitive repr unless the enum is field-less
    disc = [None] * nv
    if (not has_fields or int_repr) and rng.random() < 0.7 and nv:
        lo, hi = INT_RANGE[int_repr or "isize"]
        if reprs == ["C"] or (not int_repr and "C" in " ".join(reprs)):
            # a C enum is an int, or an unsigned int when a value does not fit (and none is negative)
            lo, hi = INT_RANGE["u32"] if (not has_fields and rng.random() < 0.5) else INT_RANGE["i32"]
        interesting = [v for v in (0, 1, 2, 3, 100, 127, 128, 200, 255, 256, 32767, 32768, 65535, 65536, -1, -2, -128, -129,
                                   2 ** 31 - 1, 2 ** 31, -2 ** 31, 2 ** 32, 2 ** 63 - 1, -2 ** 63, -2 ** 62, 2 ** 62, 2 ** 64 - 1, lo, hi, hi - 1,
                                   lo + 1, hi - nv, lo + nv) if lo <= v <= hi]
        if hi == 2 ** 32 - 1 and not int_repr:
            # C enum read as unsigned int: most values beyond i32::MAX
            interesting = [0, 1, 2 ** 31 - 1, 2 ** 31, 2 ** 31 + 1, 3000000000, 2 ** 32 - 2 - nv, 2 ** 32 - 1 - nv, 0x80000000 + 77, 5]
        used = set()
        cur = -1
        run_at = None
        if nv >= 3 and rng.random() < 0.35:
            # an implicit run that crosses the boundary of an integer type, followed by a smaller explicit value: the
            # largest discriminant is then neither written out nor the last one
            bs = [b for b in (127, 255, 32767, 65535, 2 ** 31 - 1, 2 ** 32 - 1) if lo <= b - 1 and b + nv <= hi]
            if bs:
                run_at = (rng.randrange(0, nv - 2), rng.choice(bs) - rng.randint(0, 1))
        for i in range(nv):
            if run_at is not None and i == run_at[0]:
                disc[i] = cur = run_at[1]
                used.add(cur)
                continue
            if run_at is not None and i == run_at[0] + 1:
                cur += 1
                used.add(cur)
                continue
            if run_at is not None and i == nv - 1:
                small = [v for v in (0, 1, 2, 3, -1, -5, 100) if lo <= v and v not in used and v + 1 not in used]
                if small:
                    disc[i] = cur = rng.choice(small)
                    used.add(cur)
                    continue
            if rng.random() < 0.6:
                for _ in range(20):
                    v = rng.choice(interesting)
                    # the implicit successors must stay in range and unique
                    if v not in used and v + (nv - i) <= hi + 1:
                        break
                else:
                    v = None
                if v is not None and v not in used:
                    disc[i] = v
                    cur = v
                    used.add(v)
                    continue
            cur = cur + 1
            if cur in used or cur > hi:
                return None
            used.add(cur)
    # `!k` right below its neighbour: the last variant gets the value just under the previous (explicit, non-positive) one
    bang = None
    if not has_fields and not int_repr and nv >= 2 and disc[nv - 2] is not None and disc[nv - 2] <= 0 and rng.random() < 0.3:
        seen = set()
        cur2 = -1
        for i in range(nv - 1):
            cur2 = disc[i] if disc[i] is not None else cur2 + 1
            seen.add(cur2)
        if disc[nv - 2] - 1 not in seen:
            disc[nv - 1] = disc[nv - 2] - 1
            bang = nv - 1
    # effective discriminant values by Rust's rule
    vals, cur = [], -1
    for i in range(nv):
        cur = disc[i] if disc[i] is not None else cur + 1
        vals.append(cur)
    if len(set(vals)) != len(vals):
        return None
    lo, hi = INT_RANGE[int_repr or ("i32" if "C" in " ".join(reprs) else "isize")]
    if not int_repr and "C" in " ".join(reprs) and not has_fields and all(0 <= v <= 2 ** 32 - 1 for v in vals):
        lo, hi = INT_RANGE["u32"]
    if any(not (lo <= v <= hi) for v in vals):
        return None
    # spelling of the explicit discriminants: literal forms everywhere; constant expressions only where the enum has a
    # primitive representation (educe refuses non-literal discriminants otherwise — a documented limit)
    suffix = int_repr or "isize"
    dtxt = []
    maybe_refused = []
    for di, d in enumerate(disc):
        if d is None:
            dtxt.append(None)
            continue
        if di == bang:
            dtxt.append("!%d" % (-d - 1))
            maybe_refused.append(True)
            continue
        forms = ["%d" % d]
        if d < 0 and -d < 2 ** 63:
            # a negative literal in another radix, with separators or with the suffix of the tag's type is still a literal
            forms += ["-0x%X" % -d, "-0b%s" % bin(-d)[2:], "-0o%o" % -d, "-%d%s" % (-d, suffix)] + (["-" + "{:,}".format(-d).replace(",", "_")] if -d >= 1000 else [])
        if d >= 0:
            forms += ["0x%X" % d, "%d_%s" % (d, suffix) if False else "%d%s" % (d, suffix), "0b%s" % bin(d)[2:], "0o%o" % d]
            if d >= 1000:
                forms.append("{:,}".format(d).replace(",", "_"))
        if not int_repr and -2 ** 63 < d < 0 and rng.random() < 0.25:
            # negation of something that is not a literal: refused, or exact
            forms = [rng.choice(["-(%d)" % -d, "-NEG_%d" % -d, "-(%d + 0)" % -d])]
            maybe_refused.append(True)
        elif not int_repr and d < 0 and rng.random() < 0.3:
            # `!k` is a constant expression educe may refuse for an enum without a primitive representation (a
            # documented limit) — but if it accepts it, the value is -k-1
            forms = ["!%d" % (-d - 1)]
            maybe_refused.append(True)
        if not int_repr and not reprs and rng.random() < 0.3 and (d in (-2 ** 63, -2 ** 62) or (d > 0 and d & (d - 1) == 0)):
            # a shift is a constant expression educe may refuse as well — if it accepts it, the value is the one rustc
            # computes in `isize` (`1 << 63` is isize::MIN, `3 << 62` is negative)
            forms = ["1 << 63" if d == -2 ** 63 else "3 << 62" if d == -2 ** 62 else "1 << %d" % (d.bit_length() - 1)]
            maybe_refused.append(True)
        if not int_repr and 0 < d < 2 ** 62 and rng.random() < 0.15:
            # a double negation: refused, or the positive value
            forms = [rng.choice(["-(-%d)" % d, "- -%d" % d])]
            maybe_refused.append(True)
        if int_repr:
            forms += ["(%d) + 1" % (d - 1) if d - 1 >= lo else "%d" % d, "%d * 1" % d if d >= 0 else "-(%d)" % (-d)]
            if d < 0:
                forms.append("!%d" % (-d - 1))
            if d > 0 and d & (d - 1) == 0:
                forms.append("1 << %d" % (d.bit_length() - 1))
        dtxt.append(rng.choice(forms))
    mode = rng.choice(["Ord", "Both", "Both", "PartialOrd"])
    return {"disc_txt": dtxt, "variants": variants, "reprs": reprs, "disc": disc, "dvals": vals, "generic": generic, "mode": mode,
            "int_repr": int_repr, "maybe_refused": bool(maybe_refused)}


def render(e, strip=False):
    traits = {"Ord": ["Ord"], "Both": ["PartialOrd", "Ord"], "PartialOrd": ["PartialOrd"]}[e["mode"]]
    derives = ["PartialEq"] + (["Eq"] if e["mode"] != "PartialOrd" else []) + (["PartialOrd"] if e["mode"] == "Ord" else [])
    out = []
    for m in sorted(set(re.findall(r"NEG_(\d+)", " ".join(x for x in (e.get("disc_txt") or []) if x)))):
        out.append("pub const NEG_%s: isize = %s;\n" % (m, m))
    if not strip:
        out.append("#[derive(%s)]\n#[derive(::educe::Educe)]\n#[educe(%s)]\n" % (", ".join(derives), ", ".join(traits)))
    for r in e["reprs"]:
        out.append("#[repr(%s)]\n" % r)
    out.append("pub enum En%s {\n" % ("<G>" if e["generic"] else ""))
    for v, d in zip(e["variants"], e.get("disc_txt") or e["disc"]):
        ds = (" = %s" % d) if d is not None else ""
        if v["style"] == "unit":
            out.append("    %s%s,\n" % (v["name"], ds))
        elif v["style"] == "tuple":
            out.append("    %s(%s)%s,\n" % (v["name"], ", ".join(v["fields"]), ds))
        else:
            out.append("    %s { %s }%s,\n" % (v["name"], ", ".join("f%d: %s" % (i, t) for i, t in enumerate(v["fields"])), ds))
    out.append("}\n")
    return "".join(out)


def value_set(e, rng, cap):
    """[(variant index, [payload value index per field])]"""
    out = []
    import itertools
    for vi, v in enumerate(e["variants"]):
        doms = [range(len(PAYLOADS[t])) for t in v["fields"]]
        combos = list(itertools.product(*doms))
        rng.shuffle(combos)
        for c in combos[:max(1, cap // max(1, len(e["variants"])))]:
            out.append((vi, list(c)))
    return out


def emit_value(e, vi, idx):
    v = e["variants"][vi]
    args = [PAYLOADS[t][i][0] for t, i in zip(v["fields"], idx)]
    if v["style"] == "unit":
        return "En::%s" % v["name"]
    if v["style"] == "tuple":
        return "En::%s(%s)" % (v["name"], ", ".join(args))
    return "En::%s { %s }" % (v["name"], ", ".join("f%d: %s" % (i, a) for i, a in enumerate(args)))


def module(cid, e, vals):
    ty = "En<u16>" if e["generic"] else "En"
    arms = "\n".join("        %d => %s," % (i, emit_value(e, vi, idx)) for i, (vi, idx) in enumerate(vals))
    ops = []
    if e["mode"] in ("Ord", "Both"):
        ops.append(("cmp", "o(::core::cmp::Ord::cmp(A, B))"))
    if e["mode"] in ("PartialOrd", "Both"):
        ops.append(("pcmp", "po(::core::cmp::PartialOrd::partial_cmp(A, B))"))
    body = []
    for name, expr in ops:
        body.append("""
            // locals
            s.push(%s);
            // boxed (heap redzones for ASan)
            { let (ba, bb) = (::std::boxed::Box::new(mk(i)), ::std::boxed::Box::new(mk(j)));
              let (ra, rb): (&%s, &%s) = (::core::hint::black_box(&*ba), ::core::hint::black_box(&*bb));
              s.push(%s); }
            // inside #[repr(C)] wrappers with different neighbour bytes
            for pad in [0x00u8, 0xFF, 0xA5] {
                let (wa, wb) = (super::Wr { e: mk(i), pad: [pad; 16] }, super::Wr { e: mk(j), pad: [pad; 16] });
                let (ra, rb) = (&::core::hint::black_box(&wa).e, &::core::hint::black_box(&wb).e);
                s.push(%s);
                let (wa, wb) = (::std::boxed::Box::new(super::Wr { e: mk(i), pad: [pad; 16] }), ::std::boxed::Box::new(super::Wr { e: mk(j), pad: [!pad; 16] }));
                let (ra, rb) = (&::core::hint::black_box(&*wa).e, &::core::hint::black_box(&*wb).e);
                s.push(%s);
            }""" % (expr.replace("A", "&a").replace("B", "&b"), ty, ty, expr.replace("A", "ra").replace("B", "rb"),
                    expr.replace("A", "ra").replace("B", "rb"), expr.replace("A", "ra").replace("B", "rb")))
    text = """pub mod %s {
%s
#[allow(unreachable_code)]
pub fn mk(i: usize) -> %s {
    match i {
%s
        _ => unreachable!(),
    }
}
fn o(x: ::core::cmp::Ordering) -> char { match x { ::core::cmp::Ordering::Less => 'L', ::core::cmp::Ordering::Equal => 'E', ::core::cmp::Ordering::Greater => 'G' } }
fn po(x: ::core::option::Option<::core::cmp::Ordering>) -> char { match x { ::core::option::Option::None => 'N', ::core::option::Option::Some(x) => o(x) } }
pub fn run() {
    ::verif_rt::guarded("%s", || {
        for i in 0..%d { for j in 0..%d {
            let (a, b) = (mk(i), mk(j));
            let mut s = String::new();
%s
            ::verif_rt::begin();
            ::verif_rt::obs("%s", "ord", i, j as isize, &s);
        } }
    });
}
}
""" % (cid, render(e), ty, arms, cid, len(vals), len(vals), "\n".join(body), cid)
    return text


PRELUDE = """#[derive(Debug, Clone, Copy, PartialEq, Eq, PartialOrd, Ord)]
pub enum Small { A, B, C }
#[repr(C)]
pub struct Wr<E> { pub e: E, pub pad: [u8; 16] }
"""


def expected(e, va, vb):
    (ia, xa), (ib, xb) = va, vb
    da, db = e["dvals"][ia], e["dvals"][ib]
    if ia != ib:
        return "L" if da < db else "G"
    v = e["variants"][ia]
    for t, a, b in zip(v["fields"], xa, xb):
        ka, kb = PAYLOADS[t][a][1], PAYLOADS[t][b][1]
        if ka != kb:
            return "L" if ka < kb else "G"
    return "E"


def build_cases(seed, n, cap):
    cases = []
    k = 0
    while len(cases) < n and k < n * 4:
        e = gen_enum(seed, k)
        k += 1
        if e is None:
            continue
        rng = rng_for(seed, PROP, "vals", k)
        vals = value_set(e, rng, cap)
        if not vals:
            continue
        cases.append(("c%d" % k, e, vals))
    return cases


def programs(cases, nbins):
    progs, base = {}, {}
    for i, sh in enumerate(H.shard(cases, nbins)):
        p = H.Program(prelude=PRELUDE)
        q = H.Program(prelude=PRELUDE)
        for cid, e, vals in sh:
            p.add_case(cid, module(cid, e, vals), "%s::run();" % cid)
            q.add_case(cid, "pub mod %s {\n%s}\n" % (cid, render(e, strip=True)))
        progs["e%d" % i] = p
        base["z%d" % i] = q
    return progs, base


def tag_read_types(chk, cases):
    """monitor on the expansion itself: where the generated code reads the tag out of memory (`.cast::<X>()`), X must be
    exactly the declared primitive representation — on this 64-bit host `isize` read as `i64` behaves the same, on a
    32-bit target it reads neighbouring bytes; an enum without a primitive representation must not be read at all"""
    feed = [(cid, render(e).replace("::educe::Educe", "Educe").split("#[derive(Educe)]", 1)[-1].join(["#[derive(Educe)]", ""])
             if False else render(e).replace("#[derive(::educe::Educe)]", "#[derive(Educe)]")) for cid, e, vals in cases]
    # the in-process expansion takes one item: drop the helper constants and the std derive line
    feed = [(cid, "\n".join(l for l in t.split("\n") if not l.startswith("pub const NEG_") and not (l.startswith("#[derive(") and "Educe" not in l)))
            for cid, t in feed]
    res = B.run_inproc(feed, items=False)
    for cid, e, vals in cases:
        r = res.get(cid)
        if r is None or r.get("st") != "ok":
            continue
        # (the type is written `::core::primitive::X` since a6f12f3; any other path counts as another type)
        casts = [re.sub(r"\s+", "", c) for c in re.findall(r"cast\s*::\s*<\s*([A-Za-z0-9_:\s]+?)\s*>", r.get("out", ""))]
        casts = [c[len("::core::primitive::"):] if c.startswith("::core::primitive::") else c for c in casts]
        chk.evaluations += 1
        want = e.get("int_repr")
        if want and not casts and len(e["variants"]) >= 2 and "cast" in r.get("out", ""):
            # the expansion casts, but not in a form this monitor reads: say so instead of passing
            chk.inconc("tag-read-not-recognised")
            continue
        bad = [c for c in casts if c != want]
        if bad:
            chk.violation("tag-read-type|%s|%s" % (want, bad[0]),
                          "the generated comparison reads the tag as `%s`, the enum's representation is %s\n%s"
                          % (bad[0], ("`%s`" % want) if want else "not primitive (no memory read is allowed at all)", render(e)),
                          {"case.rs": render(e), "expansion.txt": r.get("out", "")})
        else:
            chk.count("tag-read-type-ok" if casts else "no-tag-read")


def judge_obs(chk, which, cases, obs, bad_base, dropped):
    for cid, e, vals in cases:
        if cid in bad_base:
            continue
        text = render(e)
        files = {"case.rs": module(cid, e, vals), "descriptor.json": json.dumps(e, indent=1)}
        if cid in dropped and e.get("maybe_refused") and any(d.get("code") is None for d in dropped[cid]):
            # refused by educe itself (non-literal discriminant without a primitive representation): allowed
            chk.count("refused-non-literal-discriminant")
            continue
        if cid in dropped and e.get("int_repr") and any(d.get("code") is None for d in dropped[cid]):
            # an enum with a primitive representation takes any constant expression as a discriminant (the tag is read
            # from memory): educe's own refusal of one is the property's "never by something else than the declared value"
            # turned into a refusal of the declaration
            d = next(d for d in dropped[cid] if d.get("code") is None)
            chk.violation("refused-with-primitive-repr|%s" % re.sub(r"`[^`]*`", "`_`", d["message"])[:60],
                          "the enum has a primitive representation (%s) and valid discriminants, educe refuses it: %s\n%s"
                          % ("+".join(e["reprs"]), d["message"], text), files)
            continue
        if cid in dropped and not e.get("maybe_refused") and any(d.get("code") is None for d in dropped[cid]):
            # every explicit discriminant is an integer literal (possibly negative, in any radix): nothing educe documents
            # as out of reach
            d = next(d for d in dropped[cid] if d.get("code") is None)
            chk.violation("refused-literal-discriminants|%s" % re.sub(r"`[^`]*`", "`_`", d["message"])[:60],
                          "the discriminants are integer literals, educe refuses the enum: %s\n%s" % (d["message"], text), files)
            continue
        if cid in dropped:
            # the enum is valid Rust (baseline) but the derive does not compile: that is C01's finding;
            chk.inconc("does-not-compile (see C01)")
            log("C04: case dropped: %s\n%s" % (dropped[cid][0]["rendered"] or dropped[cid][0]["message"], text))
            continue
        o = obs.get(cid)
        if o is None or not o.began:
            if which == "native-debug":
                chk.inconc("not-run:" + which)
            continue
        if o.panic is not None:
            chk.violation("panic|%s|%s" % (which, re.sub(r"\d+", "N", o.panic)[:60]),
                          "comparison panicked (%s): %s\n%s" % (which, o.panic, text), files)
            continue
        if not o.ended:
            # aborted inside this case (UB check abort / sanitizer): attribute to it
            chk.violation("abort|%s|%s" % (which, shape_sig(e)), "process died inside the comparisons of this enum (%s)\n%s" %
                          (which, text), files)
            continue
        ok = True
        for op, i, j, res, ev in o.recs:
            want = expected(e, vals[i], vals[j])
            got = res[0]
            chk.evaluations += len(got)
            if set(got) != {want}:
                kind = "cross-variant" if vals[i][0] != vals[j][0] else "same-variant"
                chk.violation("order|%s|%s" % (kind, shape_sig(e)),
                              "cmp/partial_cmp results %s (locals, boxed, 6 wrapper placements per operation) differ from the "
                              "discriminant order %s (%s)\na = %s (discriminant %d)\nb = %s (discriminant %d)\n%s" %
                              (got, want, which, emit_value(e, *vals[i]), e["dvals"][vals[i][0]], emit_value(e, *vals[j]),
                               e["dvals"][vals[j][0]], text), files)
                ok = False
                break
        if ok:
            if which == "native-debug":
                chk.sample({"enum": text, "discriminants": e["dvals"], "values": [emit_value(e, *v) for v in vals[:4]],
                            "observations": ["%s vs %s -> %s" % (emit_value(e, *vals[i]), emit_value(e, *vals[j]), res[0])
                                             for op, i, j, res, ev in o.recs[:3]]}, limit=4)
            chk.held(digest(text), len(e["variants"]) >= 1, 0)
            chk.count("%s/repr=%s/%s" % (which, (e["reprs"] or ["none"])[0].split("(")[0],
                                         "explicit" if any(d is not None for d in e["disc"]) else "implicit"))


def shape_sig(e):
    return "repr=%s,variants=%d,%s" % ("+".join(e["reprs"]) or "none", len(e["variants"]),
                                       "unit-only" if not any(v["fields"] for v in e["variants"]) else "fields")


def main(tier, seed, scale=1.0):
    chk = Check(PROP, tier, seed)
    n = int((400 if tier == "quick" else 8000) * scale)
    n_miri = int((96 if tier == "quick" else 1600) * scale)
    cap = 6 if tier == "quick" else 8
    chk.rule = ("random enums: 1..5 variants (unit/tuple/named), payloads u8..u128, bool, char, &u8, NonZeroU8, Option<u8>, "
                "Option<Box<u8>>, nested field-less enum, (), [u8;0], Ordering, generic; repr none / every int type / C / "
                "C+int / align(N); explicit literal discriminants (negative, non-monotone, gaps, >=128, >=2^15, near the "
                "repr's limits, implicit successors); all ordered pairs of a value set x {locals, boxed, 3 pads x 2 wrapper "
                "placements} x {cmp, partial_cmp}; native debug+release, Miri slice, ASan in thorough; every case "
                "non-trivial; distinct by definition text")
    chk.assumptions = ["only enums the compiler itself accepts are used (stripped baseline must compile)",
                       "literal discriminants only: educe deliberately refuses non-literal ones"]
    cases = build_cases(seed, n, cap)
    nb = min(NCPU, max(1, len(cases) // 20))
    progs, base = programs(cases, nb)
    bdrop, bwarn, _ = H.compile_programs("c04_base", base, rt=False)
    bad_base = set()
    for b in base:
        bad_base.update(bdrop[b])
    for cid in bad_base:
        chk.inconc("baseline-rejected-by-rustc")
        ds = [d for b in base for d in bdrop[b].get(cid, [])]
        log("C04: the generated enum itself is not legal Rust (%s): %s" % (cid, (ds[0].get("rendered") or ds[0]["message"])[:600] if ds else "?"))
    if len(bad_base) > len(cases) // 3:
        log("C04: many generated enums are not valid Rust: %s" % list(bad_base)[:5])
    cases = [c for c in cases if c[0] not in bad_base]
    progs, _ = programs(cases, nb)
    tag_read_types(chk, cases)
    for release in (False, True):
        which = "native-release" if release else "native-debug"
        dropped, warns, _ = H.compile_programs("c04", progs, release=release)
        dall = {}
        for b in progs:
            dall.update(dropped[b])
        res = H.run_programs("c04", progs, release=release)
        obs = {}
        for b, (rc, o, err) in res.items():
            obs.update(o)
            if rc != 0:
                log("C04: %s exited %s (%s): %s" % (b, rc, which, err[-300:]))
        judge_obs(chk, which, cases, obs, bad_base, dall)
    # Miri slice
    mcases = cases[:n_miri]
    mprogs, _ = programs(mcases, min(NCPU, max(1, len(mcases) // 6)))
    mdrop, _, _ = H.compile_programs("c04m", mprogs)
    mall = {}
    for b in mprogs:
        mall.update(mdrop[b])
    mobs, reports = BH.run_miri("c04m", mprogs, mdrop)
    tool_bins = set()
    for b, (rc, err) in reports.items():
        if BH.classify_miri(err) == "tool":
            # an interpreter crash / unsupported operation is a tool failure, not an observation about educe
            chk.inconc("miri-tool-failure")
            tool_bins.add(b)
            log("C04: Miri failed on %s without a UB report: %s" % (b, err[-400:].replace("\n", " | ")))
            continue
        m = re.search(r"error: (Undefined Behavior[^\n]*|[^\n]*)", err)
        what = (m.group(1) if m else "miri error")[:100]
        # attribute to the case that had begun but not ended in that binary
        culprit = None
        for cid, a, bnd in mprogs[b].ranges:
            o = mobs.get(cid)
            if o is not None and o.began and not o.ended and o.panic is None:
                culprit = cid
        e = next((c[1] for c in mcases if c[0] == culprit), None)
        chk.violation("miri|%s|%s" % (re.sub(r"0x[0-9a-f]+|\d+", "N", what)[:70], shape_sig(e) if e else "?"),
                      "Miri reports an error inside a generated comparison (bin %s, case %s): %s\n%s\n%s" %
                      (b, culprit, what, render(e) if e else "", err[-2500:]),
                      {"miri.txt": err, "case.rs": module(culprit, e, next(c[2] for c in mcases if c[0] == culprit)) if e else ""})
    # cases of binaries where the tool itself failed are not judged (their runs are incomplete)
    tool_cases = {cid for b in tool_bins for cid, _, _ in mprogs[b].ranges}
    judge_obs(chk, "miri", [c for c in mcases if c[0] not in tool_cases], mobs, bad_base, mall)
    chk.extra["miri_processes"] = len(mprogs)
    chk.extra["miri_cases_completed"] = sum(1 for c in mcases if mobs.get(c[0]) is not None and mobs[c[0]].ended)
    if tier == "thorough":
        asan(chk, cases[:int(2000 * scale)], bad_base)
    return chk.finish()


def asan(chk, cases, bad_base):
    progs, _ = programs(cases, NCPU)
    triple = "x86_64-unknown-linux-gnu"
    tgt = os.path.join(WORK, "tgt", "d1-asan")
    try:
        dropped, warns, _ = H.compile_programs("c04a", progs, toolchain="nightly", release=True, target_dir=tgt,
                                               rustflags="-Zsanitizer=address -Cforce-frame-pointers=yes",
                                               extra_args=["--target", triple])
    except Inconclusive as e:
        chk.inconc("asan-build-failed")
        log("C04: ASan build failed: %s" % e)
        return
    dall = {}
    for b in progs:
        dall.update(dropped[b])
    res = H.run_programs("c04a", progs, release=True, target_dir=tgt, triple=triple,
                         env=base_env({"ASAN_OPTIONS": "detect_leaks=0:halt_on_error=1"}))
    obs = {}
    for b, (rc, o, err) in res.items():
        obs.update(o)
        if rc != 0 and "AddressSanitizer" in err:
            m = re.search(r"ERROR: AddressSanitizer: ([^\n]*)", err)
            chk.violation("asan|%s" % re.sub(r"0x[0-9a-f]+|\d+", "N", m.group(1) if m else "?")[:70],
                          "AddressSanitizer report in %s:\n%s" % (b, err[:3000]), {"asan.txt": err, "crate.rs": progs[b].source()})
    judge_obs(chk, "asan-release", cases, obs, bad_base, dall)
    chk.extra["asan_processes"] = len(progs)
