"""C06 — Debug renders the effective shape exactly like core::fmt's builders.
Monitor: format!("{:?}"), format!("{:#?}") and a width/sign/precision mix of the educed impl for
every value; oracle: a reference fmt generated from the effective shape that calls core's own
debug_struct / debug_tuple / debug_map builders (so the strings come from core, not from a
re-implementation), plus a #[derive(Debug)] twin for requests without parameters."""
import copy
import json

from .. import behave as BH
from .. import gen as G
from .. import shapes as S
from .. import twin as TW
from ..common import Check, digest, log, rng_for

PROP = "C06"
RT = S.RT


def effective(td, v):
    """(shown name or None, named style?, [(key, field, method)])"""
    ts = td.tsem.get("Debug", {})
    if td.kind == "struct":
        n = ts.get("name")
        name = td.name if n in (None, True) else (None if n is False else n)
        named = ts.get("named_field", v.style != "tuple")
    else:
        n = ts.get("name")
        ename = td.name if n is True else (None if n in (None, False) else n)
        vs = v.sem.get("Debug", {})
        vn = vs.get("name")
        vname = v.name if vn in (None, True) else (None if vn is False else vn)
        if ename and vname:
            name = "%s::%s" % (ename, vname)
        else:
            name = ename or vname
        named = vs.get("named_field", v.style == "named")
    fields = []
    for f in v.fields:
        s = f.sem.get("Debug", {})
        if s.get("ignore"):
            continue
        key = s.get("name") or (f.name if f.name is not None else "_%d" % f.slot)
        fields.append((key, f, s.get("method")))
    return name, named, fields


def ref_fmt(td):
    arms = []
    for v in td.variants:
        name, named, fields = effective(td, v)
        pat = S.pattern(td, v)

        def val(f, m):
            return "&%sViaAlt(f%d)" % (RT, f.slot) if m else "f%d" % f.slot
        if td.kind == "enum" and v.style == "unit":
            body = "f.write_str(\"%s\")" % name
        elif named:
            if name is not None:
                body = "f.debug_struct(\"%s\")%s.finish()" % (
                    name, "".join(".field(\"%s\", %s)" % (k, val(f, m)) for k, f, m in fields))
            else:
                body = "f.debug_map()%s.finish()" % "".join(
                    ".entry(&%sRawKey(\"%s\"), %s)" % (RT, k, val(f, m)) for k, f, m in fields)
        else:
            body = "f.debug_tuple(\"%s\")%s.finish()" % (
                name or "", "".join(".field(%s)" % val(f, m) for k, f, m in fields))
        arms.append("        %s => %s," % (pat, body))
    if not td.variants:
        return "pub fn ref_fmt(x: &%s, f: &mut ::core::fmt::Formatter<'_>) -> ::core::fmt::Result { match *x {} }\n" % td.inst()
    return ("#[allow(unused_variables)]\npub fn ref_fmt(x: &%s, f: &mut ::core::fmt::Formatter<'_>) -> ::core::fmt::Result {\n"
            "    match x {\n%s\n    }\n}\n" % (td.inst(), "\n".join(arms)))


def has_debug_params(td):
    if any(k in td.tsem.get("Debug", {}) for k in ("name", "named_field")):
        return True
    for v in td.variants:
        if v.sem.get("Debug"):
            return True
        for f in v.fields:
            if f.sem.get("Debug"):
                return True
    return False


def gen_case(seed, k, cap, force_wide=False):
    rng = rng_for(seed, PROP, "case", k)
    ts = ["Debug"] + rng.sample(["Clone", "PartialEq", "Hash", "Default", "PartialOrd"], rng.randint(0, 2))
    rng.shuffle(ts)
    plain = rng.random() < 0.2
    if rng.random() < 0.04 or force_wide:
        # more shown fields than the largest tuple core implements Debug for, in every style and with / without a name
        td = G.random_type(rng, ts, G.Opts(p_attr=0.15, min_fields=13, max_fields=16, max_variants=2, raw_idents=0.0,
                                           allow_empty_enum=False, kind=rng.choice(["struct", "struct", "enum"])))
        if td.kind == "struct" and td.variants[0].style != "unit":
            td.tsem.setdefault("Debug", {})
            r = rng.random()
            if r < 0.5:
                td.tsem["Debug"]["name"] = False
            td.tsem["Debug"]["named_field"] = rng.random() < 0.5
            if not td.tsem["Debug"]["named_field"]:
                for f in td.variants[0].fields:
                    if f.sem.get("Debug", {}).get("name") is not None:
                        f.sem["Debug"] = {k2: v2 for k2, v2 in f.sem["Debug"].items() if k2 != "name"}
    else:
        td = G.random_type(rng, ts, G.Opts(p_attr=0.0 if plain else 0.9, max_fields=4, max_variants=4,
                                           raw_idents=0.0, allow_empty_enum=False, p_repr=0.3))
    text = S.render(td, rng_for(seed, PROP, "spell", k), extras=False)
    vals = S.values(td, cap, rng)
    glue = ref_fmt(td)
    drive = ["        %sdrive_debug(\"c%d\", %d, &mk, &ref_fmt);" % (RT, k, len(vals))]
    twin = False
    if not has_debug_params(td):
        # identical definition with std's derive, in a sibling module so that the type name is the same
        tw = copy.copy(td)
        tw.traits = []
        tw.tsem = {}
        tw.other_derives = ["Debug"]
        tw.extra_items = []
        body = S.render(tw, strip=True).replace("pub %s %s" % (td.kind, td.name),
                                                 "#[derive(Debug)]\npub %s %s" % (td.kind, td.name), 1)
        tw2 = copy.copy(td)
        tw2.name = "tw::" + td.name
        mk2 = S.emit_mk(tw2, vals, fn="mk_tw")
        glue += "pub mod tw {\n%s}\n%s" % (body, mk2)
        glue += ("pub fn twin_fmt(i: usize) -> (String, String) { let x = mk_tw(i, 0); (format!(\"{x:?}\"), format!(\"{x:#?}\")) }\n")
        drive.append("        for i in 0..%d { let (a, b) = twin_fmt(i); let _ = %stake(); %sobs(\"c%d\", \"twin\", i, -1, "
                     "&format!(\"{}\\t{}\", %shex(&a), %shex(&b))); }" % (len(vals), RT, RT, k, RT, RT))
        twin = True
    return BH.Case("c%d" % k, td, text, vals, glue=glue, drive="\n".join(drive), info={"twin": twin})


def judge(chk, c, obs, dropped):
    td = c.td
    if c.cid in dropped:
        chk.inconc("does-not-compile (see C01)")
        log("C06: case dropped: %s\n%s" % (dropped[c.cid][0]["rendered"] or dropped[c.cid][0]["message"], c.text))
        return
    o = obs.get(c.cid)
    if o is None or not o.began:
        chk.inconc("not-run")
        return
    files = {"case.rs": c.module(), "descriptor.json": json.dumps(S.describe(td), indent=1, default=str),
             "values.json": json.dumps(c.vals)}
    if o.panic is not None or not o.ended:
        chk.violation("panic|" + (o.panic or "abort")[:60], "fmt panicked/aborted: %s\n%s" % (o.panic, c.text), files)
        return
    got = {}
    n = len(c.vals)
    for op, i, j, res, ev in o.recs:
        if op in ("dbg", "dbgp", "dbgf", "dbgx"):
            g, w = BH.H.unhex(res[0]), BH.H.unhex(res[1])
            got[(op, i)] = g
            if g != w:
                mode = {"dbg": "{:?}", "dbgp": "{:#?}", "dbgf": "{:+08.3?}", "dbgx": "{:#x?}"}[op]
                chk.violation("shape|%s|%s" % (td.kind, op), "%s output differs from core's builders on the effective shape\n"
                              "value = %s\nobserved: %r\nexpected: %r\n%s" % (mode, c.vals[i], g, w, c.text), files)
                return
        elif op == "twin":
            a, b = BH.H.unhex(res[0]), BH.H.unhex(res[1])
            if got.get(("dbg", i)) != a or got.get(("dbgp", i)) != b:
                chk.violation("derive-twin|%s" % td.kind, "output differs from #[derive(Debug)] for a request without "
                              "parameters\nvalue = %s\neduce:  %r\nderive: %r\n%s" % (c.vals[i], got.get(("dbg", i)), a, c.text), files)
                return
    if len([k for k in got if k[0] == "dbg"]) != n:
        chk.inconc("incomplete-output")
        return
    params = has_debug_params(td)
    chk.held(digest(c.text), params or c.info["twin"], 4 * n + (n if c.info["twin"] else 0))
    chk.count("%s/%s" % (td.kind, "params" if params else "twin"))
    if params:
        chk.sample({"case": c.cid, "source": c.text, "outputs": [got[("dbg", i)] for i in range(min(3, n))] +
                    [got[("dbgp", 0)]] if n else []}, limit=3)


def main(tier, seed, scale=1.0):
    chk = Check(PROP, tier, seed)
    n = int((960 if tier == "quick" else 40000) * scale)
    cap = 12 if tier == "quick" else 24
    chk.rule = ("random struct/enum definitions with Debug educed: type/variant name (default, renamed, disabled, "
                "enabled), named_field on structs and variants, field ignore/rename/method in random spellings; one "
                "fifth without any parameter (compared with a #[derive(Debug)] twin); every value formatted with {:?}, "
                "{:#?} and {:+08.3?}; non-trivial = carries a Debug parameter or has a derive twin; distinct by text")
    chk.assumptions = ["core::fmt's DebugStruct/DebugTuple/DebugMap are the reference; the effective shape is computed "
                       "by vlib/props/c06.py::effective from the descriptor", "raw identifiers are not generated here "
                       "(the statement fixes the text for ordinary identifiers only)"]
    batch = 640
    for k0 in range(0, n, batch):
        cases = [gen_case(seed, k, cap) for k in range(k0, min(n, k0 + batch))]
        obs, dropped, crashed, _, _ = BH.execute("c06", cases)
        for b, (rc, err) in crashed.items():
            log("C06: binary %s exited with %s: %s" % (b, rc, err[-500:]))
        for c in cases:
            judge(chk, c, obs, dropped)
    # unsized tails handed to a custom method: the method gets a reference to the field, whatever the builder needs
    from .. import harness as H
    RT = S.RT
    utext = ("#[derive(::educe::Educe)]\n#[educe(Debug)]\npub struct Pk<T: ?Sized> {\n    pub id: u8,\n    #[educe(Debug(method(%szz_szv)))]\n    pub tail: T,\n}\n"
             "#[derive(::educe::Educe)]\n#[educe(Debug(name = false))]\npub struct Tu<T: ?Sized>(pub u8, #[educe(Debug(method = %szz_szv))] pub T);\n"
             "#[derive(::educe::Educe)]\n#[educe(Debug(name = false))]\npub struct Mp<T> where T: ?Sized {\n    pub id: u8,\n    #[educe(Debug(method(\"%szz_szv\"), name = t))]\n    pub tail: T,\n}\n"
             % (RT, RT, RT))
    udrive = ("        let p: ::std::boxed::Box<Pk<[u8]>> = ::std::boxed::Box::new(Pk { id: 7, tail: [1u8, 2, 3] });\n"
              "        let t: ::std::boxed::Box<Tu<dyn ::core::fmt::Debug>> = ::std::boxed::Box::new(Tu(7, 5u16));\n"
              "        let m: ::std::boxed::Box<Mp<[u16]>> = ::std::boxed::Box::new(Mp { id: 7, tail: [1u16, 2] });\n"
              "        let s = Pk { id: 1, tail: 9u32 };\n"
              "        %sbegin(); %sobs(\"unszd\", \"unsized\", 0, -1, &%shex(&format!(\"{:?}|{:?}|{:?}|{:?}|{:#?}\", p, t, m, s, m)));" % (RT, RT, RT))
    uc = BH.Case("unszd", None, utext, [], drive=udrive, info={})
    uc.module = lambda c=uc: H.module(c.cid, c.text + "pub fn run() {\n    %sguarded(\"%s\", || {\n%s\n    });\n}\n" % (RT, c.cid, c.drive))
    obs, dropped, crashed, _, _ = BH.execute("c06u", [uc])
    o = obs.get("unszd")
    if "unszd" in dropped:
        d = dropped["unszd"][0]
        chk.violation("unsized-tail-does-not-compile", "Debug with a custom method on a `?Sized` tail does not compile: %s\n%s" % (d.get("rendered") or d["message"], utext),
                      {"case.rs": uc.module()})
    elif o is None or not o.recs:
        chk.inconc("unsized-not-run")
    else:
        got = H.unhex(o.recs[0][3][0])
        want = ("Pk { id: 7, tail: <3:[u8]> }|(7, <2:dyn core::fmt::Debug>)|{id: 7, t: <4:[u16]>}|Pk { id: 1, tail: <4:u32> }|"
                "{\n    id: 7,\n    t: <4:[u16]>,\n}")
        chk.evaluations += 1
        if got != want:
            chk.violation("unsized-tail|method-argument", "the custom method of an unsized tail does not get a reference to the field\nobserved: %s\nexpected: %s\n%s"
                          % (got, want, utext), {"case.rs": uc.module()})
        else:
            chk.held("unsized-tail", True, 1)
            chk.count("unsized-tail-method")
    # differential family: parameter-free requests over std field types against std's derives
    tw = TW.cases(seed, PROP, max(40, n // 4), "dbg")
    obs, dropped, crashed, _, _ = BH.execute("c06w", tw)
    for c in tw:
        TW.judge(chk, c, obs, dropped, "Debug")
    return chk.finish()
