"""C08 — Default builds exactly the designated value.
Monitor: fingerprint of T::default() (and T::new() when requested) through the real macro; oracle:
python evaluates the designated value from the descriptor (type-level expression, marked/only
variant, per-field expression or the field type's own Default); literal-conversion sub-workload
checks `= literal` against Into-converted field types."""
import json

from .. import behave as BH
from .. import gen as G
from .. import model as M
from .. import shapes as S
from .. import unions as U
from ..common import Check, digest, log, rng_for

PROP = "C08"
RT = S.RT

# (field type, attribute value, expected fingerprint) — literals in their natural type and converted with Into
LITERALS = [
    ("u8", "7", "u8:7"), ("u64", "1234567", "u64:1234567"), ("i32", "-5", "i32:-5"), ("i64", "1i64", "i64:1"),
    ("u16", "0x10", "u16:16"), ("usize", "3usize", "usize:3"),
    ("f64", "1.5", "f64:1.5"), ("f32", "2.5f32", "f32:2.5"), ("f64", "1e3", "f64:1000.0"),
    ("bool", "true", "bool:true"), ("char", "'x'", "char:120"), ("&'static str", "\"hi\"", "str:6869"),
    ("::std::string::String", "\"hi\"", "String:6869"), ("::std::string::String", "'c'", "String:63"),
    ("u64", "5u8", None), ("i64", "5i32", None), ("f64", "1.5f32", None),
    ("f64", "0.1f32", "f64:0.10000000149011612"), ("f64", "16777217.0f32", "f64:16777216.0"), ("f64", "0.1", "f64:0.1"),
    ("f32", "0.1", "f32:0.1"), ("f32", "0.1f32", "f32:0.1"), ("f64", "0.1f64", "f64:0.1"), ("u64", "300u16", "u64:300"),
    ("i64", "-5", "i64:-5"), ("i8", "-128", "i8:-128"), ("u128", "7", "u128:7"),
    (RT + "W", "3", "W:403"), (RT + "W", "true", "W:601"), (RT + "W", "'a'", "W:797"), (RT + "W", "1.5", "W:801"),
    (RT + "W", "\"abc\"", "W:903"), (RT + "W", "7u8", "W:507"), (RT + "W", "9u16", "W:1109"),
    ("u8", "b'a'", "u8:97"), (RT + "W", "b'a'", "W:597"),
    ("u32", "1 + 2", "u32:3"), ("i16", "-(3)", "i16:-3"), ("u8", "u8::MAX", "u8:255"),
    ("::std::string::String", "::std::string::String::from(\"x\")", "String:78"),
    ("i128", "170141183460469231731687303715884105727", None),
    # integer literals on float fields are converted with Into (f64: From<i32>); f32 has no such conversion
    ("f64", "1", "f64:1.0"), ("f64", "7u8", "f64:7.0"), ("f32", "7u8", "f32:7.0"),
    ("f64", "0x10", "f64:16.0"),
    # negative literals: whatever follows them in the attribute (`= -3` last, `= -3,`, `expr(-3)`) they are literals
    ("f64", "-3", "f64:-3.0"), ("f64", "-1.5", "f64:-1.5"), ("i64", "-7i32", "i64:-7"), ("f32", "-2.5", "f32:-2.5"),
    ("i8", "-1", "i8:-1"), (RT + "W", "-3", "W:397"), ("f64", "-2.5f32", "f64:-2.5"),
    # `= false` is a value like any other (not "switched off"): types whose From<bool>(false) differs from their Default
    (RT + "W", "false", "W:600"), ("::core::option::Option<bool>", "false", "S(bool:false)"),
    ("::core::option::Option<bool>", "true", "S(bool:true)"), ("bool", "false", "bool:false"),
    ("::core::option::Option<u8>", "0", "S(u8:0)"), ("::core::option::Option<char>", "'\\0'", "S(char:0)"),
    # "neutral" literals (`""`, `0`, `0.0`, `'\\0'`): what std types build by Default anyway, but W's Default is W(-1) and its From
    # impls add an offset, so a shortcut from the literal to `Default::default()` shows in the value
    (RT + "W", "\"\"", "W:900"), (RT + "W", "0", "W:400"), (RT + "W", "0.0", "W:800"), (RT + "W", "'\\0'", "W:700"),
    (RT + "W", "0u8", "W:500"), (RT + "W", "b'\\0'", "W:500"), (RT + "W", "0u16", "W:1100"), (RT + "W", "-0", "W:400"),
    ("::std::string::String", "\"\"", "String:~"), ("u8", "0", "u8:0"), ("f64", "0.0", "f64:0.0"), ("f64", "0", "f64:0.0"),
]
# string literals whose text looks like code: they are values, never parsed
for _txt in ["String::new()", "x.len()", "vec![1]", "1 + 2", "Default::default()", "::core::default::Default::default()",
             "format!(\"a\")", "Self::new()", "7", "true", "u8", "", " ", "a, b", "{}", "(1, 2)"]:
    _hex = _txt.encode().hex() or "~"
    _lit = "\"%s\"" % _txt.replace("\\", "\\\\").replace("\"", "\\\"")
    LITERALS.append(("::std::string::String", _lit, "String:" + _hex))
    LITERALS.append(("&'static str", _lit, "str:" + _hex))
# entries with expected None need a conversion the literal's natural type provides via Into (u8 -> u64 ...):
LIT_FIX = {("u64", "5u8"): "u64:5", ("i64", "5i32"): "i64:5", ("f64", "1.5f32"): "f64:1.5",
           ("i128", "170141183460469231731687303715884105727"): None}


def literal_case(seed, k):
    """a struct / enum variant / union whose fields take literals in every spelling"""
    rng = rng_for(seed, PROP, "lit", k)
    picks = [p for p in rng.sample(LITERALS, rng.randint(1, 4))]
    shape = rng.choice(["named", "tuple", "enum_named", "enum_tuple"])
    # a quarter of the cases are written by a macro_rules! macro: field types and values then reach the derive as `ty` /
    # `expr` fragments (invisible groups) and must be treated like the tokens they wrap
    via_macro = rng.random() < 0.25
    margs, mparams = [], []
    fields, want = [], []
    for i, (ty, lit, fp) in enumerate(picks):
        if fp is None:
            fp = LIT_FIX.get((ty, lit))
        if fp is None:
            continue
        if via_macro:
            mparams += ["$t%d:ty" % i, "$v%d:expr" % i]
            margs += [ty, lit]
            ty, lit = "$t%d" % i, "$v%d" % i
        sp = rng.choice(["Default = %s", "Default(expression = %s)", "Default(expr = %s)", "Default(expression(%s))",
                         "Default(expr(%s))"]) % lit
        fields.append((i, ty, sp))
        want.append(fp)
    if not fields:
        return None
    new = rng.random() < 0.5
    tl = rng.choice(["Default(new)", "Default(new = true)", "Default(new(true))"]) if new else "Default"
    if shape == "named":
        body = "".join("    #[educe(%s)]\n    pub f%d: %s,\n" % (sp, i, ty) for i, ty, sp in fields)
        text = "#[derive(::educe::Educe)]\n#[educe(%s)]\npub struct Ty {\n%s}\n" % (tl, body)
        pat = "Ty { %s }" % ", ".join("f%d" % i for i, _, _ in fields)
    elif shape == "tuple":
        body = "".join("    #[educe(%s)]\n    pub %s,\n" % (sp, ty) for i, ty, sp in fields)
        text = "#[derive(::educe::Educe)]\n#[educe(%s)]\npub struct Ty(\n%s);\n" % (tl, body)
        pat = "Ty(%s)" % ", ".join("f%d" % i for i, _, _ in fields)
    elif shape == "enum_named":
        body = "".join("        #[educe(%s)]\n        f%d: %s,\n" % (sp, i, ty) for i, ty, sp in fields)
        text = ("#[derive(::educe::Educe)]\n#[educe(%s)]\npub enum Ty {\n    Other(u8),\n    #[educe(Default)]\n    Chosen {\n%s    },\n    Last,\n}\n"
                % (tl, body))
        pat = "Ty::Chosen { %s }" % ", ".join("f%d" % i for i, _, _ in fields)
    else:
        body = "".join("        #[educe(%s)]\n        %s,\n" % (sp, ty) for i, ty, sp in fields)
        text = ("#[derive(::educe::Educe)]\n#[educe(%s)]\npub enum Ty {\n    #[educe(Default)]\n    Chosen(\n%s    ),\n    Other(u8),\n}\n"
                % (tl, body))
        pat = "Ty::Chosen(%s)" % ", ".join("f%d" % i for i, _, _ in fields)
    if via_macro:
        text = "macro_rules! mk { (%s) => {\n%s} }\nmk!(%s);\n" % (", ".join(mparams), text, ", ".join(margs))
    fps = " s.push(','); ".join("%sPayload::fp(f%d, &mut s);" % (RT, i) for i, _, _ in fields)
    glue = ("pub fn lit_fp(x: &Ty) -> String {\n    let mut s = String::new();\n    #[allow(unreachable_patterns)]\n    match x {\n"
            "        %s => { %s }\n        _ => s.push_str(\"<other variant>\"),\n    }\n    s\n}\n" % (pat, fps))
    drive = ["        %sbegin(); let d = <Ty as ::core::default::Default>::default(); %sobs(\"l%d\", \"default\", 0, -1, &lit_fp(&d));"
             % (RT, RT, k)]
    if new:
        drive.append("        %sbegin(); let d = Ty::new(); %sobs(\"l%d\", \"new\", 0, -1, &lit_fp(&d));" % (RT, RT, k))
    c = BH.Case("l%d" % k, None, text, [], glue=glue, drive="\n".join(drive), info={"want": ",".join(want), "new": new, "lit": True})
    return c


class LitCase(BH.Case):
    pass


def lit_module(c):
    from .. import harness as H
    body = c.text + c.glue + "pub fn run() {\n    %sguarded(\"%s\", || {\n%s\n    });\n}\n" % (RT, c.cid, c.drive)
    return H.module(c.cid, body)


def gen_case(seed, k):
    rng = rng_for(seed, PROP, "case", k)
    r = rng.random()
    if r < 0.25:
        c = literal_case(seed, k)
        if c is not None:
            c.module = lambda c=c: lit_module(c)
            return c
    if r < 0.35:
        td = U.random_union(rng, traits=rng.choice([["Default"], ["Default", "Clone", "Copy"], ["Debug", "Default"]]))
        fs = td.variants[0].fields
        f = M.union_default_field(td)
        override = None
        if rng.random() < 0.4:
            # the whole value from a type-level expression (also for one-field unions, where the field rule would apply too)
            g = rng.choice([x for x in fs if x.kind.key != "U:G"] or [None])
            if g is not None:
                lit = U.default_literal(g.kind.ty, rng)
                for x in fs:
                    x.sem.pop("Default", None)
                td.tsem["Default"]["expr"] = "%s { %s: %s }" % (td.name, g.name, lit)
                f, override = g, {"expr": lit}
        text = S.render(td, rng_for(seed, PROP, "spell", k), extras=False)
        # observe exactly the designated field (reading another one would read uninitialised bytes)
        glue = ("pub fn ufp(x: &%s) -> String { format!(\"{:?}\", unsafe { &x.%s }) }\n" % (td.inst(), f.name))
        new = td.tsem.get("Default", {}).get("new")
        drive = ["        %sbegin(); let d = <%s as ::core::default::Default>::default(); %sobs(\"c%d\", \"default\", 0, -1, &ufp(&d));"
                 % (RT, td.inst(), RT, k)]
        if new:
            drive.append("        %sbegin(); let d = <%s>::new(); %sobs(\"c%d\", \"new\", 0, -1, &ufp(&d));" % (RT, td.inst(), RT, k))
        c = BH.Case("c%d" % k, td, text, [], glue=glue, drive="\n".join(drive), info={"union": True, "field": f, "new": new, "override": override})
        from .. import harness as H
        c.module = lambda c=c: H.module(c.cid, c.text + c.glue + "pub fn run() {\n    %sguarded(\"%s\", || {\n%s\n    });\n}\n"
                                        % (RT, c.cid, c.drive))
        return c
    ts = ["Default"] + rng.sample(["Debug", "Clone", "PartialEq", "Hash"], rng.randint(0, 2))
    rng.shuffle(ts)
    td = G.random_type(rng, ts, G.Opts(p_attr=0.9, max_fields=4, max_variants=5, p_partial=0.3, allow_empty_enum=False))
    # the field expressions announce their evaluation: they have to run in declaration order (a struct expression may
    # list its fields in any order, the values are the same unless the initialisers depend on each other)
    for v, f in td.all_fields():
        d = f.sem.get("Default") or {}
        if d.get("expr") and "(" in d["expr"] and "::" in d["expr"] and rng.random() < 0.8:
            d["expr"] = "%sseq(%d, %s)" % (RT, f.slot, d["expr"])
    text = S.render(td, rng_for(seed, PROP, "spell", k), extras=False)
    new = td.tsem.get("Default", {}).get("new")
    drive = "        %sdrive_default::<%s>(\"c%d\", %s);" % (
        RT, td.inst(), k, ("Some(&|| <%s>::new())" % td.inst()) if new else "None")
    return BH.Case("c%d" % k, td, text, [], drive=drive, info={"new": new})


def expected_fp(td):
    garg = td.notes["garg"]
    ts = td.tsem.get("Default", {})
    if ts.get("expr") is not None:
        vi, vals = ts["expr_val"]
        v = td.variants[vi]
        parts = [BH.fp_field(f.kind, garg, "7", f.slot, a) for f, a in zip(v.fields, vals)]
        return "v%d(%s)" % (vi, ",".join(parts))
    vi = M.default_target(td)
    v = td.variants[vi]
    parts = []
    for f in v.fields:
        s = f.sem.get("Default", {})
        if s.get("expr") is not None:
            if s.get("val") is None:
                parts.append(BH.fp_field(f.kind, garg, "7", f.slot, 0))
            else:
                parts.append(BH.fp_field(f.kind, garg, "7", f.slot, s["val"]))
        else:
            parts.append(BH.fp_field(f.kind, garg, "9", f.slot, 0, default=True))
    return "v%d(%s)" % (vi, ",".join(parts))


def union_expected(td, f, override=None):
    s = override or f.sem.get("Default", {})
    ty = f.kind.ty
    if ty == "G":
        ty = td.params[0]["arg"]
    if s.get("expr") is not None:
        e = s["expr"]
        if "fill::<" in e:
            inner = e[e.index("fill::<") + 7:]
            elem_n, val = inner.split(">(")
            n = int(elem_n.split(", ")[1])
            return "[" + ", ".join([val.rstrip(")")] * n) + "]"
        return e
    if ty.startswith("["):
        n = int(ty[1:-1].split("; ")[1])
        return "[" + ", ".join(["0"] * n) + "]"
    if ty.endswith("Ct"):
        return "C { v: -7 }"
    return "0"


def judge(chk, c, obs, dropped):
    if c.cid in dropped and c.info.get("lit"):
        # this family consists of literals the property says are converted with Into (or taken as they are): the
        # definition has to compile
        d = dropped[c.cid][0]
        chk.violation("literal-default-does-not-compile|%s" % (d.get("code") or d["message"][:40]),
                      "a field default given as a bare literal does not compile:\n%s\n%s" % (d.get("rendered") or d["message"], c.text),
                      {"case.rs": c.module()})
        return
    if c.cid in dropped:
        chk.inconc("does-not-compile (see C01)")
        log("C08: case dropped: %s\n%s" % (dropped[c.cid][0]["rendered"] or dropped[c.cid][0]["message"], c.text))
        return
    o = obs.get(c.cid)
    if o is None or not o.began:
        chk.inconc("not-run")
        return
    files = {"case.rs": c.module()}
    if c.td is not None:
        files["descriptor.json"] = json.dumps(S.describe(c.td), indent=1, default=str)
    if o.panic is not None or not o.ended:
        chk.violation("panic|" + (o.panic or "abort")[:60], "default panicked/aborted: %s\n%s" % (o.panic, c.text), files)
        return
    if c.info.get("lit"):
        want = c.info["want"]
        kind = "literal"
    elif c.info.get("union"):
        want = union_expected(c.td, c.info["field"], c.info.get("override"))
        kind = "union"
    else:
        want = expected_fp(c.td)
        kind = c.td.kind
    seen = set()
    for op, i, j, res, ev in o.recs:
        seen.add(op)
        if res[0] != want:
            chk.violation("%s-value|%s" % (op, kind), "%s() is not the designated value\nobserved: %s\nexpected: %s\nevents: %s\n%s"
                          % (op, res[0], want, ev, c.text), files)
            return
        order = [int(x[3:]) for x in ev.split(",") if x.startswith("dx:")]
        if order != sorted(order):
            chk.violation("%s-evaluation-order|%s" % (op, kind), "%s() evaluates the field expressions out of declaration order: %s\n%s"
                          % (op, order, c.text), files)
            return
        if len(order) >= 2:
            chk.count("ordered-initialisers")
    if "default" not in seen or (c.info.get("new") and "new" not in seen):
        chk.inconc("incomplete-output")
        return
    chk.held(digest(c.text), True, len(o.recs))
    chk.count(kind)
    chk.sample({"case": c.cid, "source": c.text, "default": want}, limit=4)


def main(tier, seed, scale=1.0):
    chk = Check(PROP, tier, seed)
    n = int((960 if tier == "quick" else 40000) * scale)
    chk.rule = ("random struct/enum/union definitions with Default educed: default-variant / default-field marker at "
                "every position, single-variant shortcut, per-field expressions in every spelling, type-level expression, "
                "new; plus literal workloads (int, negative, float, bool, char, str, byte literals into natural, wider and "
                "From-converted field types); every case is non-trivial; distinct by source text")
    chk.assumptions = ["expected values are computed from the descriptor; literal conversions are taken from the From "
                       "impls of verif_rt::W / core"]
    batch = 960
    for k0 in range(0, n, batch):
        cases = [gen_case(seed, k) for k in range(k0, min(n, k0 + batch))]
        obs, dropped, crashed, _, _ = BH.execute("c08", cases)
        for b, (rc, err) in crashed.items():
            log("C08: binary %s exited with %s: %s" % (b, rc, err[-500:]))
        for c in cases:
            judge(chk, c, obs, dropped)
    expression_context(chk)
    return chk.finish()


def expression_context(chk):
    """the designated expression is the USER's code: it is compiled where and how the user wrote it (its line, its lints)"""
    from .. import harness as H
    # everything on one source line: `line!()` inside the attributes is the line of the constant next to them
    lin = ("pub const L: u32 = line!(); #[derive(::educe::Educe)] #[educe(Default(new))] pub struct Ty { #[educe(Default = line!())] pub a: u32, "
           "#[educe(Default(expression = line!() + 1))] pub b: u32, pub c: u8 } "
           "#[derive(::educe::Educe)] #[educe(Default)] pub enum En { #[educe(Default)] V(#[educe(Default(expr(line!())))] u32), W } "
           "#[derive(::educe::Educe)] #[educe(Default(expression = Tu(line!())))] pub struct Tu(pub u32);\n")
    drive = ("        let t = <Ty as ::core::default::Default>::default(); let n = Ty::new(); let e = match <En as ::core::default::Default>::default() { En::V(x) => x, En::W => 0 }; "
             "let u = <Tu as ::core::default::Default>::default();\n"
             "        %sbegin(); %sobs(\"lin\", \"line\", 0, -1, &format!(\"{} {} {} {} {} {}\", L, t.a, t.b - 1, n.a, e, u.0));" % (RT, RT))
    c = BH.Case("lin", None, lin, [], drive=drive, info={})
    c.module = lambda c=c: H.module(c.cid, c.text + "pub fn run() {\n    %sguarded(\"%s\", || {\n%s\n    });\n}\n" % (RT, c.cid, c.drive))
    # an out-of-range literal is the user's mistake: rustc's deny-by-default lint has to see it
    ovf = BH.Case("ovf", None, "#[derive(::educe::Educe)]\n#[educe(Default)]\npub struct Ty {\n    #[educe(Default = 300)]\n    pub a: u8,\n}\n", [], drive="", info={})
    ovf.module = lambda c=ovf: H.module(c.cid, c.text + "pub fn run() {}\n")
    ovf2 = BH.Case("ovg", None, "#[derive(::educe::Educe)]\n#[educe(Default)]\npub enum Ty {\n    #[educe(Default)]\n    V {\n        #[educe(Default(expression = 70000u16))]\n        a: u16,\n    },\n}\n", [], drive="", info={})
    ovf2.module = lambda c=ovf2: H.module(c.cid, c.text + "pub fn run() {}\n")
    # arithmetic on literals is an expression, not a literal: it is typed by the field (an alias of i64 here), nothing is
    # converted; items inside a designated expression (the static of a counter macro) exist once, whoever evaluates it;
    # a union's designated expression is evaluated once per call
    ari_text = ("pub type Off = i64;\nmacro_rules! serial { () => {{ static N: ::core::sync::atomic::AtomicU32 = ::core::sync::atomic::AtomicU32::new(0); "
                "N.fetch_add(1, ::core::sync::atomic::Ordering::SeqCst) + 1 }} }\n"
                "#[derive(::educe::Educe)]\n#[educe(Default)]\npub struct Ar {\n    #[educe(Default(expression = 1 << 31))]\n    pub a: Off,\n"
                "    #[educe(Default = !0 ^ (1 << 31))]\n    pub b: Off,\n    #[educe(Default(expr(-(1 << 40) + 5 * 3)))]\n    pub c: ::core::primitive::i64,\n}\n"
                "#[derive(::educe::Educe)]\n#[educe(Default(expression = Se(serial!()), new))]\npub struct Se(pub u32);\n"
                "#[derive(::educe::Educe)]\n#[educe(Default(expression = En::V(serial!()), new))]\npub enum En {\n    V(u32),\n    W,\n}\n"
                "#[derive(::educe::Educe)]\n#[educe(Default(new))]\npub union Un {\n    #[educe(Default = %sseq(0, 7u8))]\n    pub a: u8,\n    pub b: u16,\n}\n" % RT)
    ari_drive = ("        let a = <Ar as ::core::default::Default>::default();\n"
                 "        let s = [<Se as ::core::default::Default>::default().0, Se::new().0, <Se as ::core::default::Default>::default().0, Se::new().0];\n"
                 "        let e: Vec<u32> = [<En as ::core::default::Default>::default(), En::new(), <En as ::core::default::Default>::default()].iter().map(|x| match x { En::V(n) => *n, En::W => 0 }).collect();\n"
                 "        %sbegin(); let u1 = <Un as ::core::default::Default>::default(); let u2 = Un::new(); let ua = unsafe { u1.a } as u32 + unsafe { u2.a } as u32;\n"
                 "        %sobs(\"ari\", \"ari\", 0, -1, &format!(\"{} {} {} {:?} {:?} {}\", a.a, a.b, a.c, s, e, ua));" % (RT, RT))
    ari = BH.Case("ari", None, ari_text, [], drive=ari_drive, info={})
    ari.module = lambda c=ari: H.module(c.cid, c.text + "pub fn run() {\n    %sguarded(\"%s\", || {\n%s\n    });\n}\n" % (RT, c.cid, c.drive))
    obs, dropped, crashed, _, _ = BH.execute("c08x", [c, ovf, ovf2, ari])
    oa = obs.get("ari")
    if "ari" in dropped:
        d = dropped["ari"][0]
        chk.violation("expression-context-does-not-compile", "designated expressions on aliased / macro-written values do not compile: %s\n%s"
                      % (d.get("rendered") or d["message"], ari_text), {"case.rs": ari.module()})
    elif oa is None or not oa.recs:
        chk.inconc("expression-context-not-run")
    else:
        got = oa.recs[0][3][0]
        evs = oa.recs[0][4]
        want = "2147483648 -2147483649 -1099511627761 [1, 2, 3, 4] [1, 2, 3] 14"
        chk.evaluations += 1
        if got != want or evs.count("dx:0") != 2:
            chk.violation("expression-evaluation", "designated expressions are not evaluated as written, once per call\nobserved: %s (events %s)\n"
                          "expected: %s (two `dx:0` events for the two union values)\n%s" % (got, evs, want, ari_text), {"case.rs": ari.module()})
        else:
            chk.held("ari", True, 1)
            chk.count("expression-context/evaluation")
    for neg in (ovf, ovf2):
        chk.evaluations += 1
        if neg.cid not in dropped:
            chk.violation("expression-lints-suppressed", "an out-of-range literal given as a default compiles: rustc's overflowing_literals lint "
                          "did not see the user's expression\n%s" % neg.text, {"case.rs": neg.module()})
        else:
            chk.held("ovf:" + neg.cid, True, 1)
            chk.count("expression-context/lint")
    o = obs.get("lin")
    if "lin" in dropped or o is None or not o.recs:
        chk.inconc("expression-context-not-run")
        return
    vals = o.recs[0][3][0].split()
    chk.evaluations += 1
    if len(set(vals)) != 1:
        chk.violation("expression-location", "line!() inside a designated default expression is not the line of the attribute: "
                      "constant on the same line, struct default a, b - 1, new().a, enum field, type-level expression = %s\n%s" % (vals, lin),
                      {"case.rs": c.module()})
    else:
        chk.held("lin", True, 1)
        chk.count("expression-context/line")
