"""C11 — automatic bounds are exactly those the generated code needs.
Monitor: trait-resolution probes evaluated at run time: for every generated generic type, every
educed trait (and companion impl) and every assignment of {Yes, No<Trait>} marker types to the
type parameters, `Type<Args>: Trait` is observed as a bool (inherent associated const shadowing a
blanket trait const — nothing has to fail to compile).  Oracle: python model: the impl applies iff
every delegated field type implements the required trait after substitution and the supertraits
hold on Type<Args>.  The where-clauses of the in-process expansion are recorded as evidence."""
import itertools
import json
import re

from .. import behave as BH
from .. import build as B
from .. import gen as G
from .. import harness as H
from .. import model as M
from .. import shapes as S
from ..common import Check, digest, log, rng_for

PROP = "C11"
RT = S.RT

CAPS = {
    "Yes": {"Debug", "Clone", "Copy", "PartialEq", "Eq", "PartialOrd", "Ord", "Hash", "Default", "Into"},
}
for lacking, gone in [("Debug", {"Debug"}), ("Clone", {"Clone", "Copy"}), ("Copy", {"Copy"}),
                      ("PartialEq", {"PartialEq", "Eq", "PartialOrd", "Ord"}), ("Eq", {"Eq", "Ord"}),
                      ("PartialOrd", {"PartialOrd", "Ord"}), ("Ord", {"Ord"}), ("Hash", {"Hash"}),
                      ("Default", {"Default"}), ("Into", {"Into"})]:
    CAPS["No" + lacking] = CAPS["Yes"] - gone

PROBE_TRAIT = {t: p for t, p in M.PATH.items() if t not in ("Deref", "DerefMut")}


def probe(ty, tr):
    return ("{ struct Probe<X: ?Sized>(::core::marker::PhantomData<X>); trait Fb { const V: bool = false; } "
            "impl<X: ?Sized> Fb for Probe<X> {} impl<X: %s> Probe<X> { const V: bool = true; } <Probe<%s>>::V }" % (tr, ty))


def inst_with(td, args):
    parts = []
    for p in td.params:
        if p["kind"] == "ty":
            parts.append(RT + args[p["name"]])
        else:
            parts.append(p["arg"])
    return td.name + ("<" + ", ".join(parts) + ">" if parts else "")


def type_holds(td, ty, cap, args):
    """does field type `ty` (as written) implement capability `cap` when params are bound to args?"""
    kind = td.notes["tykind"].get(ty)
    if kind is None:
        return True
    k = kind.key
    if not (kind.needs & {"G"}):
        return True
    pname = next(p["name"] for p in td.params if p["kind"] == "ty" and re.search(r"\b%s\b" % re.escape(p["name"]), ty))
    has = cap in CAPS[args[pname]]
    if k == "PhG":
        return True
    if k in ("OptG", "NestG", "VecG") and cap == "Default":
        return True
    if k == "RefG" and cap in ("Clone", "Copy"):
        return True
    return has


def applies(td, trait, args, target=None, depth=0):
    """model: does `Type<args>: trait` hold?"""
    ts = set(td.traits)
    # who provides the impl?
    primary = trait
    if trait == "Copy" and "Clone" in ts:
        primary = "Clone"
    elif trait == "Eq" and "PartialEq" in ts:
        primary = "PartialEq"
    elif trait == "PartialOrd" and "Ord" in ts:
        primary = "Ord"
    if trait not in ts:
        if trait in td.other_derives:
            # std derive: every type parameter bounded by the trait
            return all(trait in CAPS[args[p["name"]]] for p in td.params if p["kind"] == "ty")
        return False
    types, supers = M.auto_types(td, primary, target)
    cap = {"Clone": "Copy" if "Copy" in ts else "Clone", "Eq": "PartialEq", "Into": "Into"}.get(primary, primary)
    for ty in types:
        if not type_holds(td, ty, cap, args):
            return False
    for s in supers:
        st = {v: k for k, v in M.PATH.items()}[s]
        if not applies(td, st, args, depth=depth + 1):
            return False
    return True


def gen_case(seed, k):
    rng = rng_for(seed, PROP, "case", k)
    ts = G.random_trait_set(rng)
    ts = [t for t in ts if t not in ("Deref", "DerefMut")] or ["Debug"]
    td = G.random_type(rng, ts, G.Opts(p_attr=0.9, bounds=False, rich=rng.random() < 0.5, generics=True, p_partial=0.0))
    if not any(p["kind"] == "ty" for p in td.params):
        return None
    if rng.random() < 0.15:
        G.add_self_recursive_field(rng, td)
    td.notes["tykind"] = {f.ty: f.kind for _, f in td.all_fields() if f.kind.key != "SelfRec"}
    text = S.render(td, rng_for(seed, PROP, "spell", k), extras=False)
    typarams = [p["name"] for p in td.params if p["kind"] == "ty"]
    probes = []   # (trait, target, args)
    lines = []
    for t in td.traits:
        targets = [e["ty"] for e in td.tsem["Into"]["targets"]] if t == "Into" else [None]
        for tgt in targets:
            no = "No" + t
            for combo in itertools.product(*[["Yes", no] for _ in typarams]):
                args = dict(zip(typarams, combo))
                tr = PROBE_TRAIT[t] if t != "Into" else "::core::convert::Into<%s>" % tgt
                probes.append((t, tgt, args))
                lines.append("(%s) as u8" % probe(inst_with(td, args), tr))
    drive = ("        let p: Vec<u8> = vec![%s];\n        %sbegin(); %sobs(\"c%d\", \"probes\", 0, -1, &format!(\"{:?}\", p));"
             % (",\n            ".join(lines), RT, RT, k))
    c = BH.Case("c%d" % k, td, text, [], drive=drive, info={"probes": probes})
    c.module = lambda c=c: H.module(c.cid, c.text + "".join(c.td.extra_items) +
                                    "pub fn run() {\n    %sguarded(\"%s\", || {\n%s\n    });\n}\n" % (RT, c.cid, c.drive))
    return c


TWIN_WRAPS = ["&{l} {T}", "&{l} [{T}]", "&{l} ::std::vec::Vec<{T}>", "(&{l} {T}, u8)", "::core::option::Option<&{l} {T}>",
              "&{l} ::std::boxed::Box<{T}>"]
# (type over the second parameter, traits it implements whatever the argument is, field attribute)
BYSTANDERS = [
    ("::core::marker::PhantomData<{U}>", {"Debug", "Clone", "PartialEq", "Hash"}, ""),
    ("*const {U}", {"Debug", "Clone", "PartialEq", "Hash"}, ""),
    ("&'a {U}", {"Clone"}, ""),
    ("::std::rc::Rc<{U}>", {"Clone"}, ""),
    ("::core::option::Option<{U}>", set(), ""),
    ("{U}", {"Debug", "PartialEq", "Hash"}, "ignore"),
]


def twin_case(seed, k):
    """two fields whose types differ only in a lifetime (the bound then falls on the parameter they mention) next to a
    field over a second parameter that keeps its own exact bound: declared before, between or after them, with parameter
    names that occur inside the names of the types around them (`V` / `Vec`, `O` / `Option`, `B` / `Box`, ...)"""
    rng = rng_for(seed, PROP, "twin", k)
    traits = [t for t in ("Debug", "Clone", "PartialEq", "Hash") if rng.random() < 0.6] or ["Debug"]
    tn = rng.choice(["T", "A", "K", "E"])
    un = rng.choice([x for x in ("U", "V", "B", "O", "S", "P", "R", "c", "e", "x") if x != tn])
    wrap = rng.choice(TWIN_WRAPS)
    bty, always, battr = rng.choice(BYSTANDERS)
    twins = [wrap.format(l="'a", T=tn), wrap.format(l="'b", T=tn)]
    batt = ""
    if battr:
        batt = "#[educe(%s)] " % ", ".join("%s(ignore)" % t for t in traits if t in always)
        if batt == "#[educe()] ":
            batt = ""
    by = (batt, bty.format(U=un))
    fields = [("", twins[0]), ("", twins[1])]
    pos = rng.choice([0, 1, 2])
    fields.insert(pos, by)
    if rng.random() < 0.3:
        fields.insert(rng.randint(0, len(fields)), ("", "u8"))
    kind = rng.choice(["struct", "tuple", "enum"])
    head = "#[derive(::educe::Educe)]\n#[allow(non_camel_case_types)]\n#[educe(%s)]\n" % ", ".join(traits)
    gens = "<'a, 'b, %s, %s>" % (tn, un)
    if kind == "struct":
        text = head + "pub struct Ty%s {\n%s}\n" % (gens, "".join("    %spub f%d: %s,\n" % (a, i, t) for i, (a, t) in enumerate(fields)))
    elif kind == "tuple":
        text = head + "pub struct Ty%s(%s);\n" % (gens, ", ".join("%spub %s" % (a, t) for a, t in fields))
    else:
        text = head + "pub enum Ty%s {\n    V0(%s),\n    V1 { %s },\n}\n" % (
            gens, ", ".join("%s%s" % (a, t) for a, t in fields), ", ".join("%sf%d: %s" % (a, i, t) for i, (a, t) in enumerate(fields)))
    probes, lines, want = [], [], []
    for t in traits:
        no = "No" + t
        for ta, ua in (("Yes", "Yes"), ("Yes", no), (no, "Yes")):
            if t == "Clone" and ta != "Yes":
                continue   # `&T: Clone` for every T: what the twins need from T is not probed for Clone
            tr = PROBE_TRAIT[t]
            probes.append((t, None, {tn: ta, un: ua}))
            lines.append("(%s) as u8" % probe("Ty<'static, 'static, %s%s, %s%s>" % (RT, ta, RT, ua), tr))
            want.append(ta == "Yes" and (ua == "Yes" or t in always))
    drive = ("        let p: Vec<u8> = vec![%s];\n        %sbegin(); %sobs(\"w%d\", \"probes\", 0, -1, &format!(\"{:?}\", p));"
             % (",\n            ".join(lines), RT, RT, k))
    c = BH.Case("w%d" % k, None, text, [], drive=drive, info={"probes": probes, "want": want, "twin": True, "pos": pos, "names": tn + un})
    c.module = lambda c=c: H.module(c.cid, c.text + "pub fn run() {\n    %sguarded(\"%s\", || {\n%s\n    });\n}\n" % (RT, c.cid, c.drive))
    return c


def union_eq_case():
    """a stand-alone Eq asks PartialEq of every field type (as the code documents) -- for unions as for structs and enums"""
    text = ("#[derive(::educe::Educe)]\n#[educe(Eq)]\npub union Un<T: ::core::marker::Copy> {\n    pub a: T,\n    pub b: u8,\n}\n"
            "impl<T: ::core::marker::Copy> ::core::cmp::PartialEq for Un<T> { fn eq(&self, _o: &Self) -> bool { true } }\n"
            "#[derive(::educe::Educe)]\n#[educe(Eq)]\npub struct St<T: ::core::marker::Copy> {\n    pub a: T,\n    pub b: u8,\n}\n"
            "impl<T: ::core::marker::Copy> ::core::cmp::PartialEq for St<T> { fn eq(&self, _o: &Self) -> bool { true } }\n"
            "#[derive(::educe::Educe)]\n#[educe(Eq)]\npub enum En<T: ::core::marker::Copy> {\n    V(T),\n    W { x: u8 },\n}\n"
            "impl<T: ::core::marker::Copy> ::core::cmp::PartialEq for En<T> { fn eq(&self, _o: &Self) -> bool { true } }\n")
    probes, lines, want = [], [], []
    for ty in ("Un", "St", "En"):
        for arg in ("Yes", "NoPartialEq"):
            probes.append(("Eq", None, {"T": arg, "type": ty}))
            lines.append("(%s) as u8" % probe("%s<%s%s>" % (ty, RT, arg), PROBE_TRAIT["Eq"]))
            want.append(arg == "Yes")
    drive = ("        let p: Vec<u8> = vec![%s];\n        %sbegin(); %sobs(\"ueq\", \"probes\", 0, -1, &format!(\"{:?}\", p));"
             % (",\n            ".join(lines), RT, RT))
    c = BH.Case("ueq", None, text, [], drive=drive, info={"probes": probes, "want": want, "twin": True, "pos": 0, "names": "T"})
    c.module = lambda c=c: H.module(c.cid, c.text + "pub fn run() {\n    %sguarded(\"%s\", || {\n%s\n    });\n}\n" % (RT, c.cid, c.drive))
    return c


def judge_twin(chk, c, obs, dropped):
    if c.cid in dropped:
        d = dropped[c.cid][0]
        chk.violation("twin-does-not-compile|%s" % (d.get("code") or d["message"][:40]),
                      "field types that differ only in a lifetime: the derive does not compile\n%s\n%s" % (d.get("rendered") or d["message"], c.text),
                      {"case.rs": c.module()})
        return
    o = obs.get(c.cid)
    if o is None or not o.began or o.panic or not o.recs:
        chk.inconc("not-run")
        return
    got = json.loads(o.recs[0][3][0])
    if len(got) != len(c.info["probes"]):
        chk.inconc("incomplete-output")
        return
    for (t, _, args), g, w in zip(c.info["probes"], got, c.info["want"]):
        if bool(g) != w:
            chk.violation("bounds|%s|%s|lifetime-twins" % (t, "too-strict" if w else "too-loose"),
                          "`Ty<%s>: %s` is %s, the fields need it to be %s (the parameter next to the lifetime twins keeps the bound of "
                          "its own field)\n%s" % (args, t, bool(g), w, c.text), {"case.rs": c.module()})
            return
    chk.held(digest(c.text), True, len(got))
    chk.count("lifetime-twins/bystander-%s" % ("before", "between", "after")[c.info["pos"]])


# (trait, educed traits, field type without the trait, hand-written partner impls the definition needs)
LACKING = [
    ("Debug", "Debug", "Opaque", ""),
    ("Clone", "Clone", "Opaque", ""),
    ("PartialEq", "PartialEq", "Opaque", ""),
    ("Hash", "Hash", "f64", ""), ("Hash", "Hash", "(u8, f32)", ""), ("Hash", "Hash", "Opaque", ""),
    ("Hash", "PartialEq, Hash", "f64", ""), ("Hash", "Hash", "[f32; 2]", ""),
    ("PartialOrd", "PartialEq, PartialOrd", "OnlyEq", ""),
    ("Ord", "PartialEq, Eq, PartialOrd, Ord", "f64", ""), ("Ord", "PartialEq, Eq, PartialOrd, Ord", "::core::option::Option<f32>", ""),
    ("Default", "Default", "Opaque", ""), ("Default", "Default", "&'static mut u8", ""),
    ("Copy", "Clone, Copy", "::std::string::String", ""),
]


def lacking_cases(seed):
    """a compared / cloned / printed field whose (concrete) type lacks the trait: no impl may come into being — the
    definition must be rejected by rustc's trait check like the std derive on it is"""
    out = []
    pre = "pub struct Opaque;\n#[derive(PartialEq)]\npub struct OnlyEq(pub u8);\n"
    i = 0
    for tr, educed, ty, _ in LACKING:
        for shape in ("struct-first", "struct-last", "tuple", "enum-tuple", "enum-named"):
            head = "#[derive(::educe::Educe)]\n#[educe(%s)]\n" % educed
            if shape == "struct-first":
                body = "pub struct Ty {\n    pub a: %s,\n    pub b: u8,\n}\n" % ty
            elif shape == "struct-last":
                body = "pub struct Ty {\n    pub a: u8,\n    pub b: u16,\n    pub c: %s,\n}\n" % ty
            elif shape == "tuple":
                body = "pub struct Ty(pub u8, pub %s);\n" % ty
            elif shape == "enum-tuple":
                body = "pub enum Ty {\n    %sA,\n    B(u8, %s),\n}\n" % ("#[educe(Default)]\n    " if tr == "Default" else "", ty)
                if tr == "Default":
                    body = "pub enum Ty {\n    A,\n    #[educe(Default)]\n    B(u8, %s),\n}\n" % ty
            else:
                body = "pub enum Ty {\n    A { x: u8 },\n    %sB { y: %s, z: u8 },\n}\n" % ("#[educe(Default)]\n    " if tr == "Default" else "", ty)
            text = pre + head + body
            c = BH.Case("n%d" % i, None, text, [], drive="", info={"lacking": True, "trait": tr, "ty": ty, "shape": shape})
            c.module = lambda c=c: H.module(c.cid, c.text + "pub fn run() {}\n")
            out.append(c)
            i += 1
    return out


def judge_lacking(chk, c, dropped):
    chk.evaluations += 1
    ds = dropped.get(c.cid)
    if not ds:
        chk.violation("impl-without-trait|%s|%s" % (c.info["trait"], c.info["ty"]),
                      "the field type `%s` does not implement %s, yet the derive compiles: an impl exists that the field "
                      "types do not support\n%s" % (c.info["ty"], c.info["trait"], c.text), {"case.rs": c.module()})
        return
    if all(d.get("code") is None for d in ds):
        # refused by educe itself instead of by the trait check: not what the property is about, but no impl either
        chk.count("lacking/refused-by-educe")
    chk.held(digest(c.text), True, 0)
    chk.count("lacking/%s" % c.info["trait"])


def judge(chk, c, obs, dropped, d2):
    if c.info.get("lacking"):
        return judge_lacking(chk, c, dropped)
    if c.info.get("twin"):
        return judge_twin(chk, c, obs, dropped)
    td = c.td
    if c.cid in dropped:
        chk.inconc("does-not-compile (see C01)")
        log("C11: case dropped: %s\n%s" % (dropped[c.cid][0]["rendered"] or dropped[c.cid][0]["message"], c.text))
        return
    o = obs.get(c.cid)
    if o is None or not o.began or o.panic or not o.recs:
        chk.inconc("not-run")
        return
    got = json.loads(o.recs[0][3][0])
    probes = c.info["probes"]
    if len(got) != len(probes):
        chk.inconc("incomplete-output")
        return
    files = {"case.rs": c.module(), "descriptor.json": json.dumps(S.describe(td), indent=1, default=str)}
    table = []
    for (t, tgt, args), g in zip(probes, got):
        want = applies(td, t, args, tgt)
        table.append({"trait": t, "target": tgt, "args": args, "observed": bool(g), "model": want})
        if bool(g) != want:
            where = {}
            r = d2.get(c.cid)
            if r and r.get("st") == "ok":
                where = {(i.get("trait") or "inherent"): i.get("where") for i in r.get("items", [])}
            chk.violation("bounds|%s|%s" % (t, "too-strict" if want else "too-loose"),
                          "`%s: %s` is %s, the model says %s\nwhere-clauses of the expansion: %s\n%s" %
                          (inst_with(td, args), t if tgt is None else "Into<%s>" % tgt, bool(g), want,
                           json.dumps(where, indent=1), c.text), files)
            return
    chk.held(digest(c.text), True, len(probes))
    for t in td.traits:
        chk.count(t)
    r = d2.get(c.cid)
    chk.sample({"case": c.cid, "source": c.text, "truth_table": table[:6],
                "where_clauses": [{"trait": i.get("trait"), "where": i.get("where")} for i in (r or {}).get("items", [])][:4]},
               limit=3)


def main(tier, seed, scale=1.0):
    chk = Check(PROP, tier, seed)
    n = int((2400 if tier == "quick" else 40000) * scale)
    chk.rule = ("random generic definitions whose parameters occur in delegated, ignored, method-handled, "
                "expression-defaulted and PhantomData positions and inside Option<_> / [_; 2]; every educed trait and "
                "companion impl probed for every assignment of {Yes, No<Trait>} to the type parameters; partner traits "
                "come from std derives; every case non-trivial (generic); distinct by source text")
    chk.assumptions = ["stand-alone Eq requires PartialEq of every field type (as the code documents), Clone next to "
                       "Copy requires Copy", "marker types lack exactly one trait plus the traits that have it as a supertrait"]
    batch = 480
    k = 0
    done = 0
    while done < n and k < n * 5:
        cases = []
        while len(cases) < min(batch, n - done) and k < n * 5:
            c = gen_case(seed, k)
            k += 1
            if c is not None:
                cases.append(c)
        if done == 0:
            cases += [twin_case(seed, j) for j in range(max(40, n // 12))] + lacking_cases(seed) + [union_eq_case()]
        d2 = B.run_inproc([(c.cid, c.text.replace("::educe::Educe", "Educe")) for c in cases if c.td is not None], items=True)
        obs, dropped, crashed, _, _ = BH.execute("c11", cases)
        for c in cases:
            judge(chk, c, obs, dropped, d2)
        done += len(cases)
    return chk.finish()
