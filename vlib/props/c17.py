"""C17 — the macro is total: it never panics, aborts or hangs.
Workload: token-level mutations of valid #[educe(..)] arguments (balanced delimiters, so that they
still lex and parse as a derive input) + hand-written adversarial inputs.  Monitors: catch_unwind /
exit status / per-input wall-clock around the in-process expansion (volume, candidates), and
rustc's diagnostics for the same inputs through the real proc macro, debug and release profile
(verdict): `proc-macro derive panicked`, a compiler crash, or an error without any span."""
import copy
import json
import os
import re

from .. import build as B
from .. import gen as G
from .. import harness as H
from .. import shapes as S
from .. import unions as U
from ..common import NCPU, REPO, WORK, Check, Inconclusive, digest, log, rng_for

PROP = "C17"

TOKEN_RE = re.compile(r'''
    b?"(?:[^"\\]|\\.)*" | b?'(?:[^'\\]|\\.)' | '[A-Za-z_][A-Za-z0-9_]* |
    \d[A-Za-z0-9_.]* | r\#[^\W\d]\w* | [^\W\d]\w* |
    :: | -> | => | == | != | <= | >= | && | \|\| | \.\. | [()\[\]{}] | \S
''', re.X)

POOL = [",", "=", "unsafe", "*", "true", "false", '""', '"x y"', '"0"', '"-"', "0", "-1", "- 1", "1_000",
        "18446744073709551616", "340282366920938463463374607431768211456", "0x7f", "1.5", "1e400", "'a'", 'b"x"',
        "b'x'", "ignore", "method", "rank", "bound", "name", "rename", "named_field", "new", "expression", "expr",
        "Debug", "Clone", "Copy", "PartialEq", "Eq", "PartialOrd", "Ord", "Hash", "Default", "Deref", "DerefMut",
        "Into", "::", "std::fmt::Debug", "::core::fmt::Debug", "!", "?", "#", "&", "'a", "<", ">", "..", "r#type",
        "_", "self", "Self", "crate", "super", "dyn", "impl", "fn", "where", "for", "u8", "T", "Vec<T>", "&'static str",
        "T: Clone", "T: ?Sized", "'a: 'b", "for<'x> &'x T: Clone", "|", "+", "-", "/", "%", "^", "@", "$", "~", ";",
        ":", ".", "=>", "->", "async", "await", "mut", "ref", "box", "union", "macro_rules", "r#unsafe", "\\u{0}",
        # identifiers and literals outside ASCII (byte offsets into their printed form are not character offsets)
        "_Nothing", "_Nothing(x)", "Nothing", "__", "Trait", "Self",
        "Имя", "名前", "αβ", "é", '"Имя"', '"名前: Clone"', "'é'", '"é"', "Ж", "r#Имя"]
POOL = [p for p in POOL if p != "\\u{0}"]
GROUPS = [("(", ")"), ("[", "]"), ("{", "}")]


def tokenize(s):
    return TOKEN_RE.findall(s)


def to_tree(tokens):
    stack = [[]]
    opens = {"(": ")", "[": "]", "{": "}"}
    closes = {")", "]", "}"}
    ostack = []
    for t in tokens:
        if t in opens:
            stack.append([])
            ostack.append(t)
        elif t in closes:
            if not ostack:
                continue
            inner = stack.pop()
            o = ostack.pop()
            stack[-1].append((o, inner, opens[o]))
        else:
            stack[-1].append(t)
    while len(stack) > 1:
        inner = stack.pop()
        o = ostack.pop()
        stack[-1].append((o, inner, opens[o]))
    return stack[0]


def flat(tree):
    out = []
    for n in tree:
        if isinstance(n, tuple):
            out.append(n[0])
            out.extend(flat(n[1]))
            out.append(n[2])
        else:
            out.append(n)
    return out


def all_lists(tree, acc=None):
    acc = acc if acc is not None else []
    acc.append(tree)
    for n in tree:
        if isinstance(n, tuple):
            all_lists(n[1], acc)
    return acc


def pool_node(rng):
    t = rng.choice(POOL)
    toks = tokenize(t)
    return to_tree(toks)


def mutate_tree(rng, tree):
    """in-place mutation of a token tree (list); keeps delimiters balanced"""
    lists = all_lists(tree)
    lst = rng.choice(lists)
    op = rng.choice(["delete", "dup", "swap", "replace", "insert", "insert", "wrap", "empty", "comma", "nest",
                     "long", "regroup", "splice"])
    if op == "delete" and lst:
        del lst[rng.randrange(len(lst))]
    elif op == "dup" and lst:
        i = rng.randrange(len(lst))
        lst.insert(i, copy.deepcopy(lst[i]))
    elif op == "swap" and len(lst) >= 2:
        i = rng.randrange(len(lst) - 1)
        lst[i], lst[i + 1] = lst[i + 1], lst[i]
    elif op == "replace" and lst:
        i = rng.randrange(len(lst))
        lst[i:i + 1] = pool_node(rng)
    elif op == "insert":
        i = rng.randint(0, len(lst))
        lst[i:i] = pool_node(rng)
    elif op == "wrap" and lst:
        i = rng.randrange(len(lst))
        o, c = rng.choice(GROUPS)
        lst[i] = (o, [lst[i]], c)
    elif op == "empty":
        del lst[:]
    elif op == "comma":
        i = rng.randint(0, len(lst))
        lst[i:i] = [","] * rng.randint(1, 3)
    elif op == "nest" and lst:
        i = rng.randrange(len(lst))
        node = lst[i]
        o, c = rng.choice(GROUPS[:2])
        for _ in range(rng.choice([2, 5, 17, 64])):
            node = (o, [node], c)
        lst[i] = node
    elif op == "long" and lst:
        i = rng.randrange(len(lst))
        rep = rng.choice([20, 200, 1000])
        lst[i:i + 1] = [x for _ in range(rep) for x in (copy.deepcopy(lst[i]), ",")]
    elif op == "regroup" and lst:
        i = rng.randrange(len(lst))
        if isinstance(lst[i], tuple):
            o, c = rng.choice(GROUPS)
            lst[i] = (o, lst[i][1], c)
    elif op == "splice" and len(lists) >= 2:
        src = rng.choice(lists)
        if src and src is not lst:
            i = rng.randint(0, len(lst))
            lst[i:i] = [copy.deepcopy(rng.choice(src))]


ATTR_RE = re.compile(r"#\[educe\(")


def find_attr_spans(text):
    """(start, end) of the inside of every #[educe( ... )] (end = index of the closing paren)"""
    spans = []
    for m in ATTR_RE.finditer(text):
        i = m.end()
        depth = 1
        j = i
        in_str = False
        while j < len(text) and depth:
            ch = text[j]
            if in_str:
                if ch == "\\":
                    j += 1
                elif ch == '"':
                    in_str = False
            elif ch == '"':
                in_str = True
            elif ch in "([{":
                depth += 1
            elif ch in ")]}":
                depth -= 1
            j += 1
        spans.append((i, j - 1))
    return spans


def mutate_text(rng, text):
    spans = find_attr_spans(text)
    if not spans:
        return text
    a, b = rng.choice(spans)
    tree = to_tree(tokenize(text[a:b]))
    for _ in range(rng.choice([1, 1, 1, 2, 3])):
        mutate_tree(rng, tree)
    return text[:a] + " ".join(flat(tree)) + text[b:]


HAND = [
    "#[derive(Educe)] #[educe(_Nothing)] struct S { a: u8 }",
    "#[derive(Educe)] #[educe(Debug, _Nothing)] struct S { a: u8 }",
    "#[derive(Educe)] #[educe(_Nothing(ignore))] enum E { A }",
    "#[derive(Educe)] #[educe(_Nothing = 1)] union U { a: u8 }",
    "#[derive(Educe)] #[educe(Debug)] struct S { #[educe(_Nothing)] a: u8 }",
    "#[derive(Educe)] #[educe(Hash())] union U { a: u8 }",
    "#[derive(Educe)] #[educe(PartialEq())] union U { a: u8 }",
    "#[derive(Educe)] #[educe(Debug())] union U { a: u8 }",
    "#[derive(Educe)] #[educe(Debug(name = false))] union U { a: u8 }",
    "#[derive(Educe)] #[educe(Hash(unsafe,))] union U { a: u8 }",
    "#[derive(Educe)] #[educe(Hash(bound = false))] union U { a: u8 }",
    "#[derive(Educe)] #[educe(PartialEq(bound(*)))] union U { a: u8 }",
    "#[derive(Educe)] #[educe()] struct S;",
    "#[derive(Educe)] #[educe] struct S;",
    "#[derive(Educe)] struct S;",
    "#[derive(Educe)] #[educe(,)] struct S;",
    "#[derive(Educe)] #[educe(Debug,,)] struct S;",
    "#[derive(Educe)] #[educe(std::fmt::Debug)] struct S;",
    "#[derive(Educe)] #[educe(Into)] struct S(u8);",
    "#[derive(Educe)] #[educe(Into())] struct S(u8);",
    "#[derive(Educe)] #[educe(Into(,))] struct S(u8);",
    "#[derive(Educe)] #[educe(Into(u8,,))] struct S(u8);",
    "#[derive(Educe)] #[educe(Into(&u8))] struct S(u8);",
    "#[derive(Educe)] #[educe(Into(&'a &'b mut u8))] struct S<'a, 'b>(&'a &'b mut u8);",
    "#[derive(Educe)] #[educe(Into(dyn Fn() -> u8))] struct S(u8);",
    "#[derive(Educe)] #[educe(Into(!))] struct S(u8);",
    "#[derive(Educe)] #[educe(Into(_))] struct S(u8);",
    "#[derive(Educe)] #[educe(Into(impl Sized))] struct S(u8);",
    "#[derive(Educe)] #[educe(Into([u8; {1 + 1}]))] struct S([u8; 2]);",
    "#[derive(Educe)] #[educe(Ord)] enum E { A = 340282366920938463463374607431768211455, B }",
    "#[derive(Educe)] #[educe(Ord)] enum E { A = -170141183460469231731687303715884105728, B }",
    "#[derive(Educe)] #[educe(Ord)] enum E { A = -170141183460469231731687303715884105729, B }",
    "#[derive(Educe)] #[educe(Ord)] enum E { A = 170141183460469231731687303715884105727, B }",
    "#[derive(Educe)] #[educe(Ord)] enum E { A = 1 + 1, B }",
    "#[derive(Educe)] #[educe(Ord)] enum E { A = !0, B }",
    "#[derive(Educe)] #[educe(Ord)] enum E { A = -(1), B }",
    "#[derive(Educe)] #[educe(Ord)] enum E { A = 'a' as isize, B }",
    "#[derive(Educe)] #[educe(Ord)] enum E { A = 1.5, B }",
    "#[derive(Educe)] #[educe(Ord)] #[repr()] enum E { A, B }",
    "#[derive(Educe)] #[educe(Ord)] #[repr] enum E { A, B }",
    "#[derive(Educe)] #[educe(Ord)] #[repr = \"u8\"] enum E { A, B }",
    "#[derive(Educe)] #[educe(Ord)] #[repr(u8, u16)] enum E { A, B }",
    "#[derive(Educe)] #[educe(Ord)] #[repr(C, align(4), u8)] enum E { A, B }",
    "#[derive(Educe)] #[educe(Ord)] #[repr(packed(2))] enum E { A, B }",
    "#[derive(Educe)] #[educe(Ord)] #[repr(std::u8)] enum E { A, B }",
    "#[derive(Educe)] #[educe(PartialOrd)] #[repr(\"u8\")] enum E { A, B }",
    "#[derive(Educe)] #[educe(Ord)] struct S { #[educe(Ord(rank = 9223372036854775808))] a: u8 }",
    "#[derive(Educe)] #[educe(Ord)] struct S { #[educe(Ord(rank = -9223372036854775809))] a: u8 }",
    "#[derive(Educe)] #[educe(Ord)] struct S { #[educe(Ord(rank = \"\"))] a: u8 }",
    "#[derive(Educe)] #[educe(Ord)] struct S { #[educe(Ord(rank = \"1_0\"))] a: u8 }",
    "#[derive(Educe)] #[educe(Ord)] struct S { #[educe(Ord(rank(- - 1)))] a: u8 }",
    "#[derive(Educe)] #[educe(Ord)] struct S { #[educe(Ord(rank = 1u8))] a: u8 }",
    "#[derive(Educe)] #[educe(Ord)] struct S { #[educe(Ord(rank = 0xff))] a: u8 }",
    "#[derive(Educe)] #[educe(Debug(name = \"\"))] struct S;",
    "#[derive(Educe)] #[educe(Debug(name = \"a b\"))] struct S;",
    "#[derive(Educe)] #[educe(Debug(name = \"r#type\"))] struct S;",
    "#[derive(Educe)] #[educe(Debug(name = \"fn\"))] struct S;",
    "#[derive(Educe)] #[educe(Debug = \"1x\")] struct S;",
    "#[derive(Educe)] #[educe(Debug(bound = \"T:\"))] struct S<T>(T);",
    "#[derive(Educe)] #[educe(Debug(bound = \",\"))] struct S<T>(T);",
    "#[derive(Educe)] #[educe(Debug(bound = \"T: 'a +\"))] struct S<T>(T);",
    "#[derive(Educe)] #[educe(Debug(bound(*, *)))] struct S<T>(T);",
    "#[derive(Educe)] #[educe(Debug(bound(* T: Clone)))] struct S<T>(T);",
    "#[derive(Educe)] #[educe(Debug(bound(true)))] struct S<T>(T);",
    "#[derive(Educe)] #[educe(Debug(bound = 1))] struct S<T>(T);",
    "#[derive(Educe)] #[educe(Default(expression = ))] struct S(u8);",
    "#[derive(Educe)] #[educe(Default(expression()))] struct S(u8);",
    "#[derive(Educe)] #[educe(Default)] struct S { #[educe(Default = 1_000_000_000_000_000_000_000_000_000_000_000_000_000)] a: u8 }",
    "#[derive(Educe)] #[educe(Default)] struct S { #[educe(Default = 1e999999)] a: f64 }",
    "#[derive(Educe)] #[educe(Default)] struct S { #[educe(Default = b\"\\xff\")] a: &'static [u8; 1] }",
    "#[derive(Educe)] #[educe(Default)] struct S { #[educe(Default = c\"x\")] a: u8 }",
    "#[derive(Educe)] #[educe(Default)] union U { }",
    "#[derive(Educe)] #[educe(Default)] enum E { }",
    "#[derive(Educe)] #[educe(Deref)] enum E { }",
    "#[derive(Educe)] #[educe(Into(u8))] enum E { }",
    "#[derive(Educe)] #[educe(Deref)] struct S;",
    "#[derive(Educe)] #[educe(Deref)] struct S();",
    "#[derive(Educe)] #[educe(Deref)] struct S {}",
    "#[derive(Educe)] #[educe(DerefMut)] struct S {}",
    "#[derive(Educe)] #[educe(Into(u8))] struct S {}",
    "#[derive(Educe)] #[educe(Into(u8))] struct S;",
    "#[derive(Educe)] #[educe(Debug)] enum E { V() }",
    "#[derive(Educe)] #[educe(Debug)] enum E { V {} }",
    "#[derive(Educe)] #[educe(Debug(name = false))] struct S();",
    "#[derive(Educe)] #[educe(Clone, Copy, Debug(unsafe), PartialEq(unsafe), Hash(unsafe), Default)] union U { }",
]


FORMS = ["{X}", "{X}()", "{X}[]", "{X}{{}}", "{X} = y", "{X} = \"y\"", "{X} = 1", "{X} = false", "{X} = true", "{X}(,)", "{X}(y)",
         "{X}(y = )", "{X}(unsafe)", "{X}(unsafe,)", "{X}(unsafe, unsafe)", "{X}[unsafe]", "{X}(name)", "{X}(name = )",
         "{X}(name = false)", "{X}(bound)", "{X}(bound())", "{X}(bound(,))", "{X}(bound = 1)", "{X}(ignore = 1)",
         "{X}(method)", "{X}(method())", "{X}(rank)", "{X}(rank())", "{X}(rank(x))", "{X}(expression)", "{X}(new = 2)",
         "{X}(u8)", "{X}(u8,)", "{X}(u8, method)", "{X}(u8, bound)", "{X} = -1", "{X} = b\"x\"", "{X} = 'c'", "{X} = 1.5",
         "{X}(named_field)", "{X}(named_field = 1)", "{X}::y", "y::{X}", "{X}(ignore, ignore = false)"]
ALLT = ["Debug", "Clone", "Copy", "PartialEq", "Eq", "PartialOrd", "Ord", "Hash", "Default", "Deref", "DerefMut", "Into"]


def unicode_forms():
    """non-ASCII names in every position that takes a user-chosen name or string"""
    out = []
    items = [("struct", "struct S { a: u8 }"), ("tuple", "struct S(u8);"), ("enum", "enum E { A { a: u8 }, B(u8) }"),
             ("union", "union U { a: u8 }"), ("unit", "struct S;")]
    entries = []
    for t in ["Debug", "Clone", "PartialEq", "PartialOrd", "Ord", "Hash", "Default", "Eq", "Copy", "Deref", "Into"]:
        for v in ["Имя", "名前", '"Имя"', '"é"', "r#Имя", "é"]:
            entries += ["%s = %s" % (t, v), "%s(name = %s)" % (t, v), "%s(name(%s))" % (t, v), "%s(rename = %s)" % (t, v),
                        "%s(method = %s)" % (t, v), "%s(method(%s))" % (t, v), "%s(bound = %s)" % (t, v), "%s(%s)" % (t, v),
                        "%s(unsafe, name = %s)" % (t, v), "%s(rank = %s)" % (t, v), "%s(expression = %s)" % (t, v)]
    k = 0
    for e in entries:
        kind, item = items[k % len(items)]
        out.append(("u%d" % k, "#[derive(Educe)] #[educe(%s)] %s" % (e, item)))
        if kind != "union":
            # unions have their own diagnostics builders (the `unsafe` suggestions)
            out.append(("u%du" % k, "#[derive(Educe)] #[educe(%s)] union U { a: u8 }" % e))
        k += 1
        if k % 3 == 0:
            out.append(("u%df" % k, "#[derive(Educe)] #[educe(Debug, Clone, PartialEq, PartialOrd, Hash, Default)] "
                                    "struct S { #[educe(%s)] a: u8, b: u8 }" % e))
    return out


MACRO_ARGS_TY = ["u16", "&'static str", "[u8; 2]", "::core::option::Option<u8>", "&'static [u8]", "(u8, u16)",
                 "&'static &'static u8", "::std::boxed::Box<u8>", "fn() -> u8", "&'static dyn ::core::fmt::Debug"]
MACRO_ARGS_EXPR = [("1 + 2", "7", "Foo"), ("-3", "5", "bar"), ("{ 4 }", "0x10", "r#type"), ("u64::MAX", "1_000", "Имя"),
                   ("(9)", "-1", "x"), ("if true { 1 } else { 2 }", "18446744073709551616", "Self_")]


def macro_cases():
    """derive inputs produced by macro_rules!: `ty`, `expr`, `literal`, `path` and `meta` fragments reach the derive as
    None-delimited groups, which no text can express.  Compiled through rustc only."""
    out = []
    for i, t in enumerate(MACRO_ARGS_TY):
        out.append(("mt%d" % i, """
macro_rules! mk { ($t:ty) => {
    #[derive(::educe::Educe)] #[educe(Deref, DerefMut)] pub struct A<'a> { #[educe(Deref, DerefMut)] pub f: &'a mut $t, pub g: u8 }
    #[derive(::educe::Educe)] #[educe(Deref)] pub enum B<'a> { V(&'a $t), W { #[educe(Deref)] x: &'a $t, y: u8 } }
    #[derive(::educe::Educe)] #[educe(Into($t))] pub struct C { pub f: $t, pub g: u8 }
    #[derive(::educe::Educe)] #[educe(Into(&'a $t), Into($t))] pub enum D<'a> { V(&'a $t, $t), W { r: &'a $t, #[educe(Into($t))] s: $t, t: $t } }
    #[derive(::educe::Educe)] #[educe(Debug, Clone, PartialEq, PartialOrd, Hash)] pub struct E { pub f: $t, #[educe(Debug(ignore))] pub g: $t }
    #[derive(::educe::Educe)] #[educe(Debug(bound($t: ::core::fmt::Debug)), Clone(bound = false), Deref)] pub struct F(pub $t);
    #[derive(::educe::Educe)] #[educe(Debug(unsafe), PartialEq(unsafe), Hash(unsafe), Clone, Copy, Default)] pub union G { pub f: $t, pub g: u8 }
} }
mk!(%s);
""" % t))
    for i, (e, l, n) in enumerate(MACRO_ARGS_EXPR):
        out.append(("me%d" % i, """
macro_rules! mk { ($e:expr, $l:literal, $n:ident) => {
    #[derive(::educe::Educe)] #[educe(Default, Debug(name = $n), PartialEq, PartialOrd)]
    pub struct A { #[educe(Default = $l, PartialOrd(rank = $l))] pub a: u64, #[educe(Default(expression = $e), Debug(name = $n))] pub b: u64 }
    #[derive(::educe::Educe)] #[educe(Default(expression = B::V($e as u64)), Debug = $n)]
    pub enum B { V(#[educe(Debug(name = $n))] u64), #[educe(Debug(name = $n))] W }
    #[derive(::educe::Educe)] #[educe(Default(expr($e)), Debug(name($n)))] pub struct C(#[educe(Default(expr($l)))] pub u64);
    #[derive(::educe::Educe)] #[educe(Debug($n))] pub struct D;
} }
mk!(%s, %s, %s);
""" % (e, l, n)))
    for i, (p, m) in enumerate([("::core::fmt::Debug::fmt", "Debug(name = X)"), ("fmt_it", "Debug"), ("self::fmt_it", "Debug(name = false)"),
                                ("Имя", "Debug = Y"), ("fmt_it", "Clone(bound = false)"), ("fmt_it", "Hash(unsafe)")]):
        out.append(("mp%d" % i, """
pub fn fmt_it<X>(_x: &X, f: &mut ::core::fmt::Formatter<'_>) -> ::core::fmt::Result { f.write_str("x") }
macro_rules! mk { ($p:path, $m:meta, $b:path) => {
    #[derive(::educe::Educe)] #[educe(Debug)] pub struct A { #[educe(Debug(method($p)))] pub a: u8, #[educe(Debug(method = $p))] pub b: u8 }
    #[derive(::educe::Educe)] #[educe($m)] pub struct B { pub a: u8 }
    #[derive(::educe::Educe)] #[educe(Debug, $m)] pub enum C { V { a: u8 }, W(u8) }
    #[derive(::educe::Educe)] #[educe(Clone(bound(T: $b)), Debug(bound(T: $b)))] pub struct D<T> { pub a: T }
    #[derive(::educe::Educe)] #[educe($m)] pub union E { pub a: u8 }
} }
mk!(%s, %s, ::core::clone::Clone);
""" % (p, m)))
    # `$crate` paths of an exported macro: they exist only inside rustc (a printed and re-lexed `$crate` is `$` `crate`), in
    # every place where the derive takes a type or a path of the user's: Into targets, field types under automatic
    # bounds, method paths, bound predicates, default expressions; and lifetime twins that mention only a const parameter
    out.append(("mc0", """
pub struct Foo(pub u8);
#[derive(Debug, Clone, PartialEq, Default)] pub struct Slot<T>(pub T);
pub fn fmt_it<X>(_x: &X, f: &mut ::core::fmt::Formatter<'_>) -> ::core::fmt::Result { f.write_str("x") }
pub fn mk_foo() -> Foo { Foo(1) }
macro_rules! mk { ($n:ident) => {
    #[derive(::educe::Educe)] #[educe(Into($crate::Foo))] pub struct A { pub a: $crate::Foo, pub b: u8 }
    #[derive(::educe::Educe)] #[educe(Into($crate::Foo), Into(u8))] pub enum B { V(#[educe(Into($crate::Foo))] $crate::Foo, #[educe(Into(u8))] u8) }
    #[derive(::educe::Educe)] #[educe(Debug, Clone, PartialEq, Default)] pub struct C<T> { pub a: $crate::Slot<T>, pub b: $crate::Slot<u8> }
    #[derive(::educe::Educe)] #[educe(Debug, Clone(bound($crate::Slot<T>: ::core::clone::Clone)))] pub enum D<T> { V($crate::Slot<T>), W { #[educe(Debug(method($crate::fmt_it)))] x: T } }
    #[derive(::educe::Educe)] #[educe(Default, Deref)] pub struct E { #[educe(Default = $crate::mk_foo(), Deref)] pub a: $crate::Foo, pub b: u8 }
    #[derive(::educe::Educe)] #[educe(Debug, Clone, PartialEq, Hash)] pub struct $n<'a, 'b, const N: usize> { pub head: &'a [u8; N], pub tail: &'b [u8; N] }
} }
mk!(Twins);
"""))
    return out


def systematic_forms():
    """every trait x shape x attribute position x a list of well- and ill-formed argument shapes"""
    out = []
    n = 0
    for t in ALLT:
        plain = "Into(u8)" if t == "Into" else t
        for form in FORMS:
            f = form.format(X=t)
            cases = [
                "#[derive(Educe)] #[educe(%s)] struct S<T> { a: T, b: u8 }" % f,
                "#[derive(Educe)] #[educe(%s)] struct S<T> { #[educe(%s)] a: T, b: u8 }" % (plain, f),
                "#[derive(Educe)] #[educe(%s)] enum E<T> { V(T, u8), W { x: u8 } }" % f,
                "#[derive(Educe)] #[educe(%s)] enum E<T> { #[educe(%s)] V(T, u8), W { x: u8 } }" % (plain, f),
                "#[derive(Educe)] #[educe(%s)] enum E<T> { V(T, #[educe(%s)] u8), W { x: u8 } }" % (plain, f),
                "#[derive(Educe)] #[educe(%s)] union U { a: u8, b: u16 }" % f,
                "#[derive(Educe)] #[educe(%s)] union U { #[educe(%s)] a: u8, b: u16 }" % (plain, f),
            ]
            if t in ("Debug", "PartialEq", "Hash"):
                cases.append("#[derive(Educe)] #[educe(%s(unsafe))] union U { #[educe(%s)] a: u8, b: u16 }" % (t, f))
            for c in cases:
                out.append(("s%d" % n, c))
                n += 1
    return out


ITEM_SHAPES = [
    # legal oddities of the item itself (nothing inside #[educe(..)]): empty where-clauses, empty / trailing-comma generics,
    # empty bounds, trailing `+`, unit / empty-braced / empty-tuple structs, empty enums, restricted visibilities
    "struct S<T> where {{ {f}a: T, b: u8 }}", "struct S<T>({f}T, u8) where;", "enum E<T> where {{ {v}V({f}T, u8), W }}",
    "struct S<T> where T: {{ {f}a: T, b: u8 }}", "struct S<T> where T:, {{ {f}a: T, b: u8 }}", "struct S<'a, T> where 'a:, T: 'a, {{ {f}a: &'a T, b: u8 }}",
    "struct S<T> where for<> T: Sized {{ {f}a: T, b: u8 }}", "struct S<> {{ {f}a: u8, b: u8 }}", "struct S<T,> {{ {f}a: T, b: u8 }}",
    "struct S<T: ?Sized +> {{ b: u8, {f}a: T }}", "struct S<T: (Sized)> {{ {f}a: T, b: u8 }}", "struct S<T: Sized + , const N: usize,> {{ {f}a: [T; N], b: u8 }}",
    "struct S;", "struct S {{}}", "struct S();", "struct S<T>(::core::marker::PhantomData<T>);", "enum E {{}}", "enum E<T> {{ {v}V({f}T,), }}",
    "pub(crate) struct S {{ pub(crate) {f}a: u8, pub(self) b: u8 }}", "pub(in crate) enum E {{ {v}V {{ {f}r#type: u8, }}, }}",
    "union U<T: Copy> where {{ {f}a: T, b: u8 }}", "union U<> {{ {f}a: u8, b: u8, }}", "struct S<T> where T: Sized, {{ {f}a: T, }}",
    "union U<T: Copy> where T: Copy, {{ {f}a: T, b: u8 }}", "union U<T> where T: Copy, T: Sized, {{ {f}a: T }}", "enum E<T> where T: Sized, {{ {v}V({f}T) }}",
    "#[rustfmt::skip] enum E {{ {v}A, B(u8) }}", "#[rustfmt::skip] #[repr(u8)] enum E {{ {v}A = 1, B = 0 }}", "#[rustfmt::skip] struct S {{ {f}a: u8 }}",
    "#[r#repr(u8)] enum E {{ {v}A = 1, B = 0 }}", "struct S {{ #[rustfmt::skip] {f}a: u8 }}", "union U {{ #[rustfmt::skip] {f}a: u8, b: u8 }}",
    "enum E<T> where T: Sized {{ {v}V = 1, }}", "enum E {{ {v}A = 1, B = 2, }}", "struct S<'a,> where 'a: 'a {{ {f}a: &'a u8 }}",
]


def item_syntax_forms():
    out = []
    n = 0
    for t in ALLT:
        plain = "Into(u8)" if t == "Into" else t
        partners = {"Eq": "PartialEq, ", "PartialOrd": "PartialEq, ", "Ord": "PartialEq, Eq, PartialOrd, ", "Copy": "Clone, ", "DerefMut": "Deref, "}.get(t, "")
        fa = {"Deref": "#[educe(Deref)] ", "DerefMut": "#[educe(Deref, DerefMut)] ", "Into": "#[educe(Into(u8))] "}.get(t, "")
        va = "#[educe(Default)] " if t == "Default" else ""
        for shape in ITEM_SHAPES:
            uns = "(unsafe)" if shape.startswith("union") and t in ("Debug", "PartialEq", "Hash") else ""
            body = shape.format(f=fa, v=va)
            if shape.startswith("union") and t == "Default":
                body = body.replace("a: ", "#[educe(Default)] a: ", 1)
            out.append(("i%d" % n, "#[derive(Educe)] #[educe(%s%s%s)] %s" % (partners, plain, uns, body)))
            n += 1
    return out


def rank_edge_inputs():
    """explicit ranks that coincide with another field's default rank (isize::MIN + declaration index), and extremes"""
    out = []
    n = 0
    MIN = -(2 ** 63)
    for t, extra in (("Ord", "PartialEq, Eq, PartialOrd, "), ("PartialOrd", "PartialEq, ")):
        for i in range(3):
            for j in range(4):
                for spell in ("rank = %d", "rank(%d)", "rank = \"%d\""):
                    r = spell % (MIN + j)
                    attrs = ["", "", ""]
                    attrs[i] = "#[educe(%s(%s))] " % (t, r)
                    out.append(("r%d" % n, "#[derive(Educe)] #[educe(%s%s)] struct S { %sa: u8, %sb: u8, %sc: u8 }" %
                                (extra, t, attrs[0], attrs[1], attrs[2])))
                    out.append(("r%d" % (n + 1), "#[derive(Educe)] #[educe(%s%s)] struct S(%su8, %su8, %su8);" %
                                (extra, t, attrs[0], attrs[1], attrs[2])))
                    out.append(("r%d" % (n + 2), "#[derive(Educe)] #[educe(%s%s)] enum E { V(%su8, %su8, %su8), W { %sx: u8, %sy: u8, %sz: u8 } }" %
                                (extra, t, attrs[0], attrs[1], attrs[2], attrs[0], attrs[1], attrs[2])))
                    n += 3
    # ranks that do not fit isize, in every spelling, alone and followed by more tokens (a negative literal is one token
    # only when it is the last one)
    for t, extra in (("Ord", "PartialEq, Eq, PartialOrd, "), ("PartialOrd", "PartialEq, ")):
        for v in ("-9223372036854775809", "9223372036854775808", "-170141183460469231731687303715884105729", "-0", "- 1", "--1", "-1u8", "-1.5"):
            for spell in ("rank = %s", "rank(%s)", "rank = \"%s\"", "rank = %s,", "rank = %s, method = f", "rank = %s, ignore = false",
                          "method = f, rank = %s"):
                out.append(("r%d" % n, "#[derive(Educe)] #[educe(%s%s)] struct S { #[educe(%s(%s))] a: u8, b: u8 }" % (extra, t, t, spell % v)))
                out.append(("r%d" % (n + 1), "#[derive(Educe)] #[educe(%s%s)] enum E { V(#[educe(%s(%s))] u8, u8), W }" % (extra, t, t, spell % v)))
                n += 2
    return out


def helper_string_forms():
    """string-valued arguments that contain the macro's own helper names and that do or do not lex as tokens (unbalanced
    delimiters, unterminated comments / strings): the search for a fresh helper name reads these strings"""
    import glob
    names = set()
    for f in glob.glob(os.path.join(REPO, "src", "**", "*.rs"), recursive=True):
        try:
            names.update(re.findall(r"Educe__[A-Za-z]+", open(f).read()))
        except OSError:
            pass
    names = sorted(names | {"Educe__RawString", "Educe__DebugField"})
    strings = []
    for nm in names:
        strings += ['"%s::fmt("' % nm, '"%s)"' % nm, '"/* %s"' % nm, '"\\"%s"' % nm, '"%s"' % nm, '"%s_::<H>::f"' % nm, '"[%s_"' % nm]
    strings += ['"H::hash("', '"HH}"', '"\'"']
    out = []
    n = 0
    for t in ALLT:
        plain = "Into(u8)" if t == "Into" else t
        uns = "%s(unsafe)" % t if t in ("Debug", "PartialEq", "Hash") else plain
        for st in strings:
            for key in ["%s = {S}", "%s(method = {S})", "%s(name = {S})", "%s(bound = {S})", "%s(expression = {S})", "%s(u8, method = {S})"]:
                if key.startswith("%s(u8") and t != "Into":
                    continue
                f = (key % t).format(S=st)
                for c in ["#[derive(Educe)] #[educe(%s)] struct S<T> { a: T, b: u8 }" % f,
                          "#[derive(Educe)] #[educe(%s)] struct S<T> { #[educe(%s)] a: T, b: u8 }" % (plain, f),
                          "#[derive(Educe)] #[educe(%s)] enum E<T> { #[educe(%s)] V(T, u8), W { x: u8 } }" % (plain, f),
                          "#[derive(Educe)] #[educe(%s)] enum E<T> { V(T, #[educe(%s)] u8), W { x: u8 } }" % (plain, f),
                          "#[derive(Educe)] #[educe(%s)] enum E<T> { A { #[educe(%s)] x: T }, B }" % (plain, f),
                          "#[derive(Educe)] #[educe(%s)] union U { #[educe(%s)] a: u8, b: u16 }" % (uns, f)]:
                    out.append(("z%d" % n, c))
                    n += 1
    return out


def gen_inputs(seed, n):
    base = []
    k = 0
    while len(base) < max(50, n // 12):
        rng = rng_for(seed, PROP, "base", k)
        k += 1
        if rng.random() < 0.12:
            td = U.random_union(rng)
        else:
            td = G.random_type(rng, G.random_trait_set(rng), G.Opts(rich=rng.random() < 0.3, max_fields=3,
                                                                     max_variants=3))
        base.append(S.render(td, rng, extras=False).replace("::educe::Educe", "Educe"))
    out = [("h%d" % i, t) for i, t in enumerate(HAND)] + [("h" + cid, t) for cid, t in systematic_forms()] + \
        [("h" + cid, t) for cid, t in rank_edge_inputs()] + [("h" + cid, t) for cid, t in unicode_forms()] + \
        [("h" + cid, t) for cid, t in item_syntax_forms()]
    for i in range(n):
        rng = rng_for(seed, PROP, "mut", i)
        out.append(("m%d" % i, mutate_text(rng, rng.choice(base))))
    return out


def d1_batch(name, cases, release, full=False):
    """compile the inputs through the real macro; returns {cid: [diags]}, crashed cids"""
    shards = H.shard(cases, min(NCPU, max(1, len(cases) // 250)))
    progs = {}
    for i, sh in enumerate(shards):
        p = H.Program(header="#![allow(dead_code, unused)]\n")
        for cid, text in sh:
            p.add_case(cid, H.module(cid, "use ::educe::Educe;\n" + text + "\n"))
        progs["t%d" % i] = p
    B.setup_d1(name, {b: p.source() for b, p in progs.items()}, rt=True, educe_features=["full"] if full else None)
    rc, diags, err = B.cargo_build_d1(name, release=release, subcmd="check",
                                      target_dir=os.path.join(WORK, "tgt", "d1-check-full" if full else "d1-check"))
    att = H.attribute_diags(progs, diags)
    per = {}
    spanless = []
    for b, m in att.items():
        for cid, ds in m.items():
            if cid is None:
                for d in ds:
                    if d["level"].startswith("error") and d.get("code") is None:
                        spanless.append((b, d))
            else:
                per.setdefault(cid, []).extend(ds)
    crashed = []
    for b in progs:
        # rustc dying (signal / ICE) shows up as a failed unit without a normal error summary
        if re.search(r"\(signal: \d+|rustc.*SIGSEGV|stack overflow|internal compiler error", err) and b in err:
            crashed.append(b)
    return per, spanless, crashed, progs, err


def main(tier, seed, scale=1.0):
    chk = Check(PROP, tier, seed)
    n = int((30000 if tier == "quick" else 600000) * scale)
    n_d1 = int((4000 if tier == "quick" else 60000) * scale)
    chk.rule = ("token-level mutations (delete/duplicate/swap/replace/insert/wrap/nest<=64/long lists/stray commas/"
                "regroup/splice) of the #[educe(..)] arguments of valid random requests + %d hand-written adversarial "
                "inputs and %d systematic trait x shape x position x argument-form inputs; every input goes through the in-process expansion under catch_unwind (release; 1 in 10 also "
                "with debug assertions), all in-process panics and a seeded sample go through rustc with the real "
                "macro in the dev and release profiles; non-trivial = input that differs from its valid base; "
                "distinct by text" % (len(HAND), len(systematic_forms())))
    chk.assumptions = ["an in-process panic that rustc does not reproduce is recorded as inproc_only, not as a "
                       "violation (proc-macro2's fallback prints tokens differently from rustc)",
                       "wall-clock is only a verdict for an isolated input that does not finish within 60 s"]
    inputs = gen_inputs(seed, n)
    seen = set()
    uniq = []
    for cid, t in inputs:
        d = digest(t)
        if d not in seen:
            seen.add(d)
            uniq.append((cid, t))
    inputs = uniq
    texts = dict(inputs)
    res = B.run_inproc(inputs, items=False, timeout=300)
    # the helper-name strings run apart with a short batch timeout (a clean batch needs about a second): a hang there must not
    # cost 300 s per input; whatever does not finish is re-run in isolation below like every slow input (at most three of them)
    hs = [("h" + cid, t) for cid, t in helper_string_forms()]
    hs = [(cid, t) for cid, t in hs if digest(t) not in seen]
    res_hs = B.run_inproc(hs, items=False, timeout=40)
    hs_slow = sorted(cid for cid, t in hs if (res_hs.get(cid) or {}).get("st") == "timeout")
    for cid, t in hs:
        texts[cid] = t
        if cid not in hs_slow:
            res[cid] = res_hs.get(cid)
    res.update({cid: res_hs[cid] for cid in hs_slow[:3]})
    inputs = inputs + [(cid, t) for cid, t in hs if cid not in hs_slow[3:]]
    chk.extra["helper_string_inputs"] = len(hs)
    # (inputs beyond the first three that did not finish in their batch are not re-run one by one: reported, never a verdict)
    chk.extra["helper_string_slow_not_isolated"] = len(hs_slow[3:])
    hung = set(hs_slow[3:])
    dbg_sample = [c for i, c in enumerate(inputs) if (i % 10 == 0 or c[0].startswith("h")) and c[0] not in hs_slow]
    res_dbg = B.run_inproc(dbg_sample, items=False, profile="debug", timeout=300)
    # educe's `full` feature switches syn to its complete expression grammar: other parse paths
    full_sample = [c for i, c in enumerate(inputs) if (i % 5 == 1 or c[0].startswith("h")) and c[0] not in hs_slow]
    res_full = B.run_inproc(full_sample, items=False, full=True, timeout=300)
    full_candidates = [cid for cid, t in full_sample if (res_full.get(cid) or {}).get("st") in ("panic", "crash", "timeout")]
    candidates = []
    slow = []
    stats = {}
    for cid, t in inputs:
        for r in (res.get(cid), res_dbg.get(cid)):
            if r is None:
                continue
            st = r.get("st")
            stats[st] = stats.get(st, 0) + 1
            chk.evaluations += 1
            if st in ("panic", "crash"):
                candidates.append((cid, st, r.get("msg", "")))
            elif st == "timeout":
                slow.append(cid)
            elif st == "harness":
                chk.inconc("runner-harness")
            if r.get("us", 0) > 5_000_000:
                slow.append(cid)
    chk.extra["inproc_status"] = stats
    # isolated re-run of slow inputs
    for cid in sorted(set(slow)):
        r = B.run_inproc([(cid, texts[cid])], items=False, timeout=60).get(cid, {})
        if r.get("st") == "timeout":
            chk.violation("hang|" + digest(texts[cid]), "expansion of an isolated input does not finish within 60 s\n%s"
                          % texts[cid][:3000], {"input.rs": texts[cid]})
            hung.add(cid)
        elif r.get("st") == "crash":
            candidates.append((cid, "crash", r.get("msg", "")))
    # D1: all candidates + a seeded sample
    rng = rng_for(seed, PROP, "d1")
    cand_ids = sorted({c[0] for c in candidates})
    # (an input whose expansion does not finish never goes to rustc: the compiler would not come back either)
    cand_ids = [c for c in cand_ids if c not in hung]
    rest = [c for c, _ in inputs if c not in set(cand_ids) and c not in hung]
    rng.shuffle(rest)
    d1_ids = cand_ids + [c for c in rest if c.startswith("h")] + [c for c in rest if not c.startswith("h")][:n_d1]
    d1_cases = [(c, texts[c]) for c in d1_ids]
    for cid, t in macro_cases():
        texts[cid] = t
        d1_cases.append((cid, t))
    confirmed = set()
    for release in (False, True):
        per, spanless, crashed, progs, err = d1_batch("c17", d1_cases, release)
        prof = "release" if release else "dev"
        for cid, ds in per.items():
            for d in ds:
                if "panicked" in d["message"] or "proc-macro derive panicked" in d.get("rendered", ""):
                    confirmed.add(cid)
                    m = re.search(r"message: (.*)", d.get("rendered", ""))
                    what = (m.group(1) if m else d["message"])[:80]
                    chk.violation("panic|%s" % re.sub(r"\d+", "N", what),
                                  "proc-macro derive panicked under rustc (%s profile): %s\n%s" %
                                  (prof, d.get("rendered", "")[:800], texts[cid][:3000]),
                                  {"input.rs": texts[cid]})
        for b, d in spanless:
            chk.violation("spanless|%s" % d["message"][:60],
                          "rustc reports an educe error without any span (%s, %s): %s" % (prof, b, d["message"]),
                          {"crate.rs": progs[b].source()[:200000]})
        if crashed:
            # isolate by bisection over the crashed shard
            for b in crashed:
                ids = [cid for cid, _, _ in progs[b].ranges]
                culprit = bisect_crash(ids, texts, release)
                if culprit:
                    chk.violation("rustc-crash|" + digest(texts[culprit]),
                                  "rustc dies while expanding this input (%s profile)\n%s" % (prof, texts[culprit][:3000]),
                                  {"input.rs": texts[culprit]})
                else:
                    chk.inconc("rustc-crash-not-isolated")
        chk.count("d1_inputs_" + prof, len(d1_cases))
        chk.evaluations += len(d1_cases)
    # the same through rustc with educe's `full` feature enabled (dev profile)
    rngf = rng_for(seed, PROP, "d1full")
    fids = sorted(set(full_candidates)) + [c for c, _ in full_sample if c.startswith("h")]
    extra = [c for c, _ in full_sample if not c.startswith("h")]
    rngf.shuffle(extra)
    fids += extra[:n_d1 // 4]
    per, spanless, crashed, progs, err = d1_batch("c17full", [(c, texts[c]) for c in dict.fromkeys(fids)], False, full=True)
    for cid, ds in per.items():
        for d in ds:
            if "panicked" in d["message"] or "proc-macro derive panicked" in d.get("rendered", ""):
                confirmed.add(cid)
                m = re.search(r"message: (.*)", d.get("rendered", ""))
                what = (m.group(1) if m else d["message"])[:80]
                chk.violation("panic|full|%s" % re.sub(r"\d+", "N", what),
                              "proc-macro derive panicked under rustc with educe's `full` feature: %s\n%s" %
                              (d.get("rendered", "")[:800], texts[cid][:3000]), {"input.rs": texts[cid]})
    for b, d in spanless:
        chk.violation("spanless|full|%s" % d["message"][:60], "rustc reports an educe error without any span (full feature, %s): %s"
                      % (b, d["message"]), {"crate.rs": progs[b].source()[:200000]})
    chk.count("d1_inputs_full_feature", len(set(fids)))
    chk.evaluations += len(set(fids)) + len(full_sample)
    for cid in full_candidates:
        if cid not in confirmed:
            chk.count("inproc_only:full-runner")
    for cid, st, msg in candidates:
        if cid not in confirmed:
            chk.count("inproc_only:" + st)
            chk.extra.setdefault("inproc_only_samples", [])
            if len(chk.extra["inproc_only_samples"]) < 5:
                chk.extra["inproc_only_samples"].append({"input": texts[cid][:400], "inproc": msg[:200]})
    bad = {v[0] for v in []}
    for cid, t in inputs:
        if cid not in confirmed:
            chk.held(digest(t), not cid.startswith("h") or True, 0)
    for cid in d1_ids[len(cand_ids):len(cand_ids) + 3]:
        chk.sample({"input": texts[cid][:1200], "inproc": (res.get(cid) or {}).get("st"),
                    "inproc_msg": (res.get(cid) or {}).get("msg", "")[:160]})
    return chk.finish()


def bisect_crash(ids, texts, release):
    lo = list(ids)
    while len(lo) > 1:
        half = lo[:len(lo) // 2]
        per, spanless, crashed, progs, err = d1_batch("c17_bisect", [(c, texts[c]) for c in half], release)
        if crashed:
            lo = half
        else:
            lo = lo[len(lo) // 2:]
    if lo:
        per, spanless, crashed, progs, err = d1_batch("c17_bisect", [(lo[0], texts[lo[0]])], release)
        if crashed:
            return lo[0]
    return None
