"""C07 — Clone and clone_from reproduce the source value field by field.
Monitor: fingerprints (variant, per-field (side, slot, payload, clone-generation)) of x.clone() for
every value and of a.clone_from(&b) for every ordered pair (any variants); oracle: python model
(field-wise: exactly one Clone::clone / custom method per field; with Copy and no method a bitwise
copy: no generation bump, no Clone::clone events); the source must stay untouched."""
import json
import re

from .. import behave as BH
from .. import gen as G
from .. import shapes as S
from .. import twin as TW
from ..common import Check, digest, log, rng_for

PROP = "C07"
RT = S.RT


def gen_case(seed, k, cap):
    rng = rng_for(seed, PROP, "case", k)
    ts = ["Clone"]
    copy = rng.random() < 0.35
    if copy:
        ts.append("Copy")
    ts += rng.sample(["Debug", "PartialEq", "Hash", "Default"], rng.randint(0, 1))
    rng.shuffle(ts)
    # half of the Copy types carry no custom clone method anywhere: clone has to be the bitwise copy then, in every bound mode
    avoid = {"copy_enum_method"} if copy and rng.random() < 0.5 else set()
    td = G.random_type(rng, ts, G.Opts(p_attr=0.9, max_fields=4, max_variants=4, p_partial=0.3, p_repr=0.3, avoid=avoid, p_packed=0.5))
    if avoid and not td.params and rng.random() < 0.5:
        td.tsem.setdefault("Clone", {})["bound"] = rng.choice([("none",), ("none",), ("all",)])
    if copy and not avoid and rng.random() < 0.25 and "bound" not in td.tsem.get("Clone", {}):
        # Copy comes from std's derive, written in an attribute of its own AFTER the Educe derive (the derive input shows
        # it): Clone alone is educed and stays the field-wise clone
        td.traits = [t for t in td.traits if t != "Copy"]
        td.tsem.pop("Copy", None)
        td.other_derives = list(td.other_derives) + ["Copy"]
        td.derives_after = True
        copy = False
    text = S.render(td, rng_for(seed, PROP, "spell", k), extras=False)
    vals = S.values(td, cap, rng)
    drive = ["        %sdrive_clone(\"c%d\", %d, &mk);" % (RT, k, len(vals))]
    glue = ""
    if copy:
        # the type must be Copy: a by-value use after a move only compiles for Copy types
        glue = ("pub fn is_copy<X: ::core::marker::Copy>(x: &X) -> X { *x }\n"
                "pub fn copy_fp(i: usize) -> String { let x = mk(i, 0); let y = is_copy(&x); %sFp::fp(&y) }\n" % RT)
        drive.append("        for i in 0..%d { %sbegin(); let s = copy_fp(i); %sobs(\"c%d\", \"copy\", i, -1, &s); }"
                     % (len(vals), RT, RT, k))
    return BH.Case("c%d" % k, td, text, vals, glue=glue, drive="\n".join(drive), info={"copy": copy})


def field_mode(td, f, copy):
    """how the clone of this field is produced: 'bitwise' | 'clone' | 'method'"""
    m = f.sem.get("Clone", {}).get("method")
    if copy:
        if td.kind == "enum" and any(x.sem.get("Clone", {}).get("method") for _, x in td.all_fields()):
            return "method" if m else "clone"
        return "bitwise"
    return "method" if m else "clone"


def fp_value(td, v, side, gens):
    """expected fingerprint of value v built on `side` whose fields have clone generations gens[slot]"""
    i, fs = v
    garg = td.notes["garg"]
    parts = []
    for f, a in zip(td.variants[i].fields, fs):
        parts.append(BH.fp_field(f.kind, garg, side, f.slot, a, gens[f.slot] if isinstance(gens, (list, tuple)) else gens))
    return "v%d(%s)" % (i, ",".join(parts))


def gen_bump(td, f, mode):
    k = f.kind.key
    if mode == "bitwise":
        return 0
    if k in ("RefT", "RefG", "PhG", "U8", "ArrN"):
        return 0
    return 10 if mode == "method" else 1


def expected_clone(td, v, side, copy):
    i, fs = v
    gens = [gen_bump(td, f, field_mode(td, f, copy)) for f in td.variants[i].fields]
    return fp_value(td, v, side, gens)


def judge(chk, c, obs, dropped):
    td = c.td
    copy = c.info["copy"]
    if c.cid in dropped and c.info.get("copy") and any(
            d.get("code") in ("E0277", "E0204") and "Copy" in (d.get("message", "") + (d.get("rendered") or "")) for d in dropped[c.cid]):
        d = dropped[c.cid][0]
        chk.violation("not-copy|%s" % c.td.kind, "Copy is educed but the type is not Copy (a by-value use behind a `X: Copy` bound does not compile)\n%s\n%s"
                      % (d.get("rendered") or d["message"], c.text), {"case.rs": c.module()})
        return
    if c.cid in dropped:
        chk.inconc("does-not-compile (see C01)")
        log("C07: case dropped: %s\n%s" % (dropped[c.cid][0]["rendered"] or dropped[c.cid][0]["message"], c.text))
        return
    o = obs.get(c.cid)
    if o is None or not o.began:
        chk.inconc("not-run")
        return
    files = {"case.rs": c.module(), "descriptor.json": json.dumps(S.describe(td), indent=1, default=str),
             "values.json": json.dumps(c.vals)}
    if o.panic is not None or not o.ended:
        chk.violation("panic|" + (o.panic or "abort")[:60], "clone panicked/aborted: %s\n%s" % (o.panic, c.text), files)
        return
    n = len(c.vals)
    seen = 0
    bitwise = copy and all(field_mode(td, f, copy) == "bitwise" for _, f in td.all_fields())
    for op, i, j, res, ev in o.recs:
        if op == "clone":
            seen += 1
            got, src = res[0], res[1]
            want = expected_clone(td, c.vals[i], "0", copy)
            if src != fp_value(td, c.vals[i], "0", 0):
                chk.violation("source-modified", "clone() changed its source\n%s" % c.text, files)
                return
            if got != want:
                chk.violation("clone-result|%s|copy=%s" % (td.kind, copy), "x.clone() is not the field-wise clone of x\n"
                              "x = %s\nobserved: %s\nexpected: %s\nevents: %s\n%s" % (c.vals[i], got, want, ev, c.text), files)
                return
            if bitwise and ev != "-":
                chk.violation("copy-not-bitwise", "Copy is educed and no method is used, but clone() called field "
                              "clones: %s\n%s" % (ev, c.text), files)
                return
        elif op == "clone_from":
            seen += 1
            got, via_clone, src = res[0], res[1], res[2]
            want = expected_clone(td, c.vals[j], "1", copy)
            if src != fp_value(td, c.vals[j], "1", 0):
                chk.violation("source-modified", "clone_from() changed its source\n%s" % c.text, files)
                return
            if got != via_clone or got != want:
                chk.violation("clone_from-result|%s|%s" % (td.kind, "same-variant" if c.vals[i][0] == c.vals[j][0] else "other-variant"),
                              "after a.clone_from(&b), a differs from b.clone()\na = %s\nb = %s\nobserved a:  %s\nb.clone():   %s\n"
                              "model:       %s\nevents: %s\n%s" % (c.vals[i], c.vals[j], got, via_clone, want, ev, c.text), files)
                return
        elif op == "copy":
            seen += 1
            if res[0] != fp_value(td, c.vals[i], "0", 0):
                chk.violation("copy-value", "a copy of the value differs from the value\n%s" % c.text, files)
                return
    if seen < n + n * n:
        chk.inconc("incomplete-output")
        return
    methods = sum(1 for _, f in td.all_fields() if f.sem.get("Clone"))
    chk.held(digest(c.text), methods >= 1 or copy or len(td.variants) >= 2, seen)
    chk.count("%s/copy=%s/methods=%d" % (td.kind, copy, min(methods, 2)))
    if methods or copy:
        chk.sample({"case": c.cid, "source": c.text,
                    "history_excerpt": ["%s %s %s -> %s [%s]" % (op, i, j, res[0], ev) for op, i, j, res, ev in o.recs[:3]]},
                   limit=3)


def main(tier, seed, scale=1.0):
    chk = Check(PROP, tier, seed)
    n = int((960 if tier == "quick" else 24000) * scale)
    cap = 16 if tier == "quick" else 30
    chk.rule = ("random struct/enum definitions with Clone educed (custom clone methods on some fields), a third also "
                "Copy; clone() of every value, clone_from for every ordered pair of values (same and different "
                "variants); fingerprints carry side/slot/payload/clone-generation of every leaf; non-trivial = has a "
                "method, is Copy, or has >= 2 variants; distinct by source text")
    chk.assumptions = ["a leaf's clone generation counts Clone::clone (+1) and the custom method (+10) applications; "
                       "references, PhantomData and primitives carry no generation"]
    batch = 640
    for k0 in range(0, n, batch):
        cases = [gen_case(seed, k, cap) for k in range(k0, min(n, k0 + batch))]
        obs, dropped, crashed, _, _ = BH.execute("c07", cases)
        for b, (rc, err) in crashed.items():
            log("C07: binary %s exited with %s: %s" % (b, rc, err[-500:]))
        for c in cases:
            judge(chk, c, obs, dropped)
    # differential family: parameter-free requests over std field types against std's derives
    tw = TW.cases(seed, PROP, max(40, n // 4), "clone")
    obs, dropped, crashed, _, _ = BH.execute("c07w", tw)
    for c in tw:
        TW.judge(chk, c, obs, dropped, "clone")
    return chk.finish()
