"""Shared plumbing for the educe runtime-monitoring checks (python3 stdlib only)."""
import hashlib
import json
import os
import random
import shutil
import subprocess
import sys
import time

VERIF = os.path.dirname(os.path.dirname(os.path.abspath(__file__)))
REPO = os.path.abspath(os.environ.get("VERIF_REPO", "/repo"))
WORK = os.path.abspath(os.environ.get("VERIF_WORK", os.path.join(VERIF, ".work")))
EVIDENCE_DIR = os.path.abspath(os.environ.get("VERIF_EVIDENCE_DIR", os.path.join(VERIF, "evidence")))
REPLAYS = os.path.abspath(os.environ.get("VERIF_REPLAYS", os.path.join(VERIF, "replays")))
KNOWN_FINDINGS = os.path.join(VERIF, "known_findings.json")
NCPU = max(1, min(16, os.cpu_count() or 1))
GUARD = "magiclen_educe_verif"

TRAITS = ["Debug", "Clone", "Copy", "PartialEq", "Eq", "PartialOrd", "Ord", "Hash", "Default",
          "Deref", "DerefMut", "Into"]


def env_seed():
    try:
        return int(os.environ.get("VERIF_SEED", "0"))
    except ValueError:
        return 0


def rng_for(seed, *parts):
    h = hashlib.sha256(("%d|" % seed + "|".join(str(p) for p in parts)).encode()).digest()
    return random.Random(int.from_bytes(h[:8], "big"))


def base_env(extra=None):
    env = dict(os.environ)
    env["CARGO_NET_OFFLINE"] = "true"
    env["CARGO_TERM_COLOR"] = "never"
    env.pop("RUSTFLAGS", None)
    env.pop("CARGO_TARGET_DIR", None)
    if extra:
        env.update(extra)
    return env


class Inconclusive(Exception):
    """Harness-level problem: neither held nor violated."""


def run(cmd, cwd=None, env=None, timeout=600, stdin=None, check=False):
    """Run a command; returns (rc, stdout, stderr, wall). rc None on timeout."""
    t0 = time.time()
    try:
        p = subprocess.run(cmd, cwd=cwd, env=env or base_env(), stdout=subprocess.PIPE,
                           stderr=subprocess.PIPE, timeout=timeout, input=stdin)
        rc, out, err = p.returncode, p.stdout, p.stderr
    except subprocess.TimeoutExpired as e:
        rc, out, err = None, e.stdout or b"", e.stderr or b""
    wall = time.time() - t0
    out = out.decode("utf-8", "replace")
    err = err.decode("utf-8", "replace")
    if check and rc != 0:
        raise Inconclusive("command failed rc=%s: %s\n%s" % (rc, " ".join(cmd), err[-4000:]))
    return rc, out, err, wall


def write(path, text):
    os.makedirs(os.path.dirname(path), exist_ok=True)
    # do not touch mtime when unchanged: keeps cargo fingerprints stable
    try:
        with open(path) as f:
            if f.read() == text:
                return
    except OSError:
        pass
    with open(path, "w") as f:
        f.write(text)


def digest(obj):
    if not isinstance(obj, (bytes, str)):
        obj = json.dumps(obj, sort_keys=True, default=str)
    if isinstance(obj, str):
        obj = obj.encode()
    return hashlib.sha256(obj).hexdigest()[:16]


def log(*a):
    print(*a, file=sys.stderr, flush=True)


# ------------------------------------------------------------------------------------------------
# known findings


def load_known():
    try:
        with open(KNOWN_FINDINGS) as f:
            return json.load(f)
    except OSError:
        return {"findings": [], "fixed": []}


class Check:
    """One run of one property's check: collects verdicts, evidence and violations."""

    def __init__(self, prop, tier, seed, level="exploration"):
        self.prop = prop
        self.tier = tier
        self.seed = seed
        self.level = level
        self.t0 = time.time()
        self.evaluations = 0
        self.held_keys = set()         # distinct non-trivial held case digests
        self.inconclusive = {}         # reason -> count
        self.violations = []           # (signature, replay_dir, summary)
        self.known_hits = []           # (signature, what)
        self.samples = []
        self.extra = {}
        self.assumptions = []
        self.rule = ""
        self.strata = {}
        self._known = [k for k in load_known().get("findings", []) if k.get("property") == prop]

    # -- bookkeeping -----------------------------------------------------------------------------
    def count(self, stratum, n=1):
        self.strata[stratum] = self.strata.get(stratum, 0) + n

    def held(self, key, nontrivial=True, evaluations=0):
        self.evaluations += evaluations
        if nontrivial:
            self.held_keys.add(key if isinstance(key, str) else digest(key))

    def inconc(self, reason, n=1):
        self.inconclusive[reason] = self.inconclusive.get(reason, 0) + n

    def sample(self, obj, limit=6):
        if len(self.samples) < limit:
            self.samples.append(obj)

    def violation(self, signature, summary, files=None):
        """Record a violation. `signature` identifies the failing construct for known-findings
        matching; `files` = {relative name: text} saved under replays/<prop>/<digest>/."""
        for k in self._known:
            if k.get("signature") == signature:
                if not any(s == signature for s, _ in self.known_hits):
                    self.known_hits.append((signature, k.get("what", "")))
                return None
        d = os.path.join(REPLAYS, self.prop, digest(signature + "|" + summary))
        os.makedirs(d, exist_ok=True)
        files = dict(files or {})
        files["violation.json"] = json.dumps(
            {"property": self.prop, "signature": signature, "summary": summary, "seed": self.seed,
             "tier": self.tier, "repo": REPO}, indent=1)
        for name, text in files.items():
            p = os.path.join(d, name)
            os.makedirs(os.path.dirname(p), exist_ok=True)
            with open(p, "w") as f:
                f.write(text)
        self.violations.append((signature, d, summary))
        return d

    # -- finish ----------------------------------------------------------------------------------
    def finish(self, min_nontrivial=2):
        wall = time.time() - self.t0
        cov = {
            "evaluations": int(self.evaluations),
            "distinct_nontrivial": len(self.held_keys),
            "rule": self.rule,
            "samples": self.samples,
            "strata": self.strata,
            "inconclusive": self.inconclusive,
            "known_findings_hit": [s for s, _ in self.known_hits],
        }
        cov.update(self.extra)
        ev = {
            "property_id": self.prop,
            "tier": self.tier,
            "seed": self.seed,
            "level": self.level,
            "coverage": cov,
            "assumptions": self.assumptions,
            "wall_s": round(wall, 2),
            "violations": len(self.violations),
        }
        os.makedirs(EVIDENCE_DIR, exist_ok=True)
        with open(os.path.join(EVIDENCE_DIR, self.prop + ".json"), "w") as f:
            json.dump(ev, f, indent=1, default=str)
            f.write("\n")
        for sig, what in self.known_hits:
            print("KNOWN-FINDING: property=%s %s [%s]" % (self.prop, what, sig))
        seen = set()
        for sig, d, summary in self.violations:
            if d in seen:
                continue
            seen.add(d)
            print("VIOLATION property=%s replay=%s" % (self.prop, d))
            print("  " + summary.replace("\n", "\n  ")[:2000])
        print("%s %s seed=%d: evaluations=%d distinct_nontrivial=%d violations=%d inconclusive=%s "
              "wall=%.1fs" % (self.prop, self.tier, self.seed, self.evaluations, len(self.held_keys),
                              len(seen), json.dumps(self.inconclusive), wall))
        sys.stdout.flush()
        if seen:
            return 1
        if len(self.held_keys) < min_nontrivial or self.evaluations < 1:
            print("INCONCLUSIVE property=%s: too little was observed (%d non-trivial cases held)" %
                  (self.prop, len(self.held_keys)))
            return 2
        return 0


def rmtree(p):
    shutil.rmtree(p, ignore_errors=True)
