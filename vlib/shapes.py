"""Type-definition model: shapes, field kinds over the verif_rt universe, rendering, value domains."""
import itertools

from . import attrs as A

RT = "::verif_rt::"
ALLCAPS = {"Debug", "Clone", "Copy", "PartialEq", "Eq", "PartialOrd", "Ord", "Hash", "Default"}


class Kind:
    def __init__(self, key, ty, caps, dom, ctor, needs=(), copy=False, base=None):
        self.key, self.ty, self.caps, self.dom, self.ctor = key, ty, set(caps), dom, ctor
        self.needs = set(needs)  # 'a' (lifetime) / 'G' (type parameter)
        self.base = base or key
        self.dexpr = ctor         # expression usable inside the (generic) definition


def _leaf(tyname):
    return lambda side, slot, a: "%s%s::mk(%s, %d, %d)" % (RT, tyname, side, slot, a)


def _opt(leaf):
    def f(side, slot, a):
        if a == 0:
            return "::core::option::Option::None"
        return "::core::option::Option::Some(%s)" % leaf(side, slot, a - 1)
    return f


def _pair(leaf, fmt):
    def f(side, slot, a):
        return fmt % (leaf(side, slot, a // 2), leaf(side, slot, a % 2))
    return f


def make_kinds(g="G", garg="T", lt="'a", full=False):
    """Field kinds; `g` is the name of the generic parameter used by G-kinds, `garg` the verif_rt
    type it will be instantiated with."""
    # full=True: expressions that need syn's `full` feature (array / tuple literals) instead of helper calls
    ARR = "[%s, %s]" if full else RT + "arr2(%s, %s)"
    TUP = "(%s, %s)" if full else RT + "pair(%s, %s)"
    T, Ct, P = _leaf("T"), _leaf("Ct"), _leaf("P")
    gl = _leaf(garg)
    gcaps = {"T": ALLCAPS - {"Copy"}, "Ct": ALLCAPS,
             "P": {"Debug", "Clone", "PartialEq", "PartialOrd", "Default"}}[garg]
    nocopy = ALLCAPS - {"Copy"}
    ks = [
        Kind("T", RT + "T", nocopy, 3, T),
        Kind("Ct", RT + "Ct", ALLCAPS, 3, Ct),
        Kind("P", RT + "P", {"Debug", "Clone", "PartialEq", "PartialOrd", "Default"}, 3, P),
        Kind("OptT", "::core::option::Option<%sT>" % RT, nocopy, 3, _opt(T)),
        Kind("OptCt", "::core::option::Option<%sCt>" % RT, ALLCAPS, 3, _opt(Ct)),
        Kind("ArrT", "[%sT; 2]" % RT, nocopy, 3, _pair(T, ARR)),
        Kind("ArrCt", "[%sCt; 2]" % RT, ALLCAPS, 3, _pair(Ct, ARR)),
        Kind("TupT", "(%sT, %sT)" % (RT, RT), nocopy, 3, _pair(T, TUP)),
        Kind("BoxT", "::std::boxed::Box<%sT>" % RT, nocopy, 3,
             lambda s, sl, a: "::std::boxed::Box::new(%s)" % T(s, sl, a)),
        Kind("RefT", "&%s %sT" % (lt, RT), ALLCAPS - {"Default"}, 3,
             lambda s, sl, a: "%sleak(%s)" % (RT, T(s, sl, a)), needs={"a"}),
        Kind("G", g, gcaps, 3, gl, needs={"G"}),
        Kind("OptG", "::core::option::Option<%s>" % g, gcaps, 3, _opt(gl), needs={"G"}),
        Kind("ArrG", "[%s; 2]" % g, gcaps - {"Default"} if False else gcaps, 3,
             _pair(gl, ARR), needs={"G"}),
        Kind("VecG", "::std::vec::Vec<%s>" % g, gcaps - {"Copy"}, 3,
             lambda s, sl, a: "::std::vec::Vec::new()" if a == 0 else "%svec1(%s)" % (RT, gl(s, sl, a - 1)), needs={"G"}),
        Kind("NestG", "::core::option::Option<::core::option::Option<%s>>" % g, gcaps, 3,
             lambda s, sl, a: ("::core::option::Option::None" if a == 0 else
                               "::core::option::Option::Some(::core::option::Option::None)" if a == 1 else
                               "::core::option::Option::Some(::core::option::Option::Some(%s))" % gl(s, sl, 0)), needs={"G"}),
        Kind("WrapG", "%sWrap<%s>" % (RT, g), gcaps, 3, lambda s, sl, a: "%sWrap(%s)" % (RT, gl(s, sl, a)), needs={"G"}),
        Kind("RefG", "&%s %s" % (lt, g), (gcaps | {"Clone", "Copy"}) - {"Default"}, 3,
             lambda s, sl, a: "%sleak(%s)" % (RT, gl(s, sl, a)), needs={"G", "a"}),
        Kind("PhG", "::core::marker::PhantomData<%s>" % g, ALLCAPS, 1,
             lambda s, sl, a: "::core::marker::PhantomData", needs={"G"}),
        Kind("U8", "u8", ALLCAPS, 3, lambda s, sl, a: "%du8" % a),
    ]
    d = {k.key: k for k in ks}
    gen_leaf = lambda side, slot, a: "<%s as %sPayload>::mkp(%s, %d, %d)" % (g, RT, side, slot, a)
    d["G"].dexpr = gen_leaf
    d["OptG"].dexpr = _opt(gen_leaf)
    d["ArrG"].dexpr = _pair(gen_leaf, ARR)
    d["VecG"].dexpr = lambda s, sl, a: "::std::vec::Vec::new()" if a == 0 else "%svec1(%s)" % (RT, gen_leaf(s, sl, a - 1))
    d["NestG"].dexpr = lambda s, sl, a: ("::core::option::Option::None" if a == 0 else
                                         "::core::option::Option::Some(::core::option::Option::None)" if a == 1 else
                                         "::core::option::Option::Some(::core::option::Option::Some(%s))" % gen_leaf(s, sl, 0))
    d["WrapG"].dexpr = lambda s, sl, a: "%sWrap(%s)" % (RT, gen_leaf(s, sl, a))
    d["RefG"].dexpr = lambda s, sl, a: "%sleak(%s)" % (RT, gen_leaf(s, sl, a))
    return d


class Field:
    def __init__(self, name, kind, slot):
        self.name = name          # None for tuple fields
        self.kind = kind          # Kind
        self.slot = slot          # declaration index within the variant
        self.sem = {}             # trait -> semantic dict
        self.ty_override = None

    @property
    def ty(self):
        return self.ty_override or self.kind.ty

    def ident(self):
        return self.name if self.name is not None else str(self.slot)


class Variant:
    def __init__(self, name, style, fields, disc=None):
        self.name, self.style, self.fields, self.disc = name, style, fields, disc
        self.sem = {}


class TypeDef:
    def __init__(self, kind, name="Ty"):
        self.kind = kind
        self.name = name
        self.params = []          # dicts: kind lt|ty|const, name, bounds[], default, arg
        self.where = []
        self.reprs = []
        self.variants = []
        self.traits = []          # educed traits in attribute order
        self.tsem = {}            # trait -> type-level semantic dict
        self.other_derives = []
        self.extra_items = []     # helper items rendered after the definition
        self.notes = {}

    # -- generics --------------------------------------------------------------------------------
    def decl_generics(self):
        if not self.params:
            return ""
        parts = []
        for p in self.params:
            if p["kind"] == "lt":
                s = p["name"] + (": " + " + ".join(p["bounds"]) if p.get("bounds") else "")
            elif p["kind"] == "ty":
                s = p["name"] + (": " + " + ".join(p["bounds"]) if p.get("bounds") else "")
                if p.get("default"):
                    s += " = " + p["default"]
            else:
                s = "const %s: %s" % (p["name"], p.get("cty", "usize"))
                if p.get("default"):
                    s += " = " + p["default"]
            parts.append((p["attr"] + " " if p.get("attr") else "") + s)
        return "<" + ", ".join(parts) + ">"

    def inst_args(self):
        if not self.params:
            return ""
        return "<" + ", ".join(p["arg"] for p in self.params) + ">"

    def inst(self):
        return self.name + self.inst_args()

    def all_fields(self):
        for v in self.variants:
            for f in v.fields:
                yield v, f


# ------------------------------------------------------------------------------------------------
# semantic -> attribute params


def field_entries(td, f):
    """[(trait-name-as-written, params)] for one field from its semantic dicts."""
    out = []
    for t in td.traits + ["Eq_", "PartialOrd_"]:
        pass
    order = f.sem.get("_order") or list(f.sem.keys())
    for t in order:
        s = f.sem.get(t)
        if not s or t.startswith("_"):
            continue
        if t == "Into":
            for e in s:
                ps = [("type", "type", e["ty"])]
                if e.get("method"):
                    ps.append(("method", "path", e["method"]))
                out.append(("Into", ps))
            continue
        if t in ("Deref", "DerefMut"):
            out.append((t, []))
            continue
        carrier = s.get("carrier", t)
        ps = []
        if s.get("ignore") is True:
            ps.append(("ignore", "flagbool", True))
        elif s.get("ignore_explicit_false"):
            ps.append(("ignore", "flagbool", False))
        if s.get("name") is not None:
            ps.append(("name", "ident", s["name"]))
        if s.get("method"):
            ps.append(("method", "path", s.get("method_spelling") or s["method"]))
        if s.get("rank") is not None:
            ps.append(("rank", "int", s["rank"]))
        if s.get("expr") is not None:
            ps.append(("expression", "expr", s["expr"]))
        if ps or s.get("flag"):
            out.append((carrier, ps))
    for raw in f.sem.get("_raw", []):
        out.append(("RAW", raw))
    return out


def variant_entries(td, v):
    out = []
    for raw in v.sem.get("_raw", []):
        out.append(("RAW", raw))
    for t, s in v.sem.items():
        if not s or t.startswith("_"):
            continue
        ps = []
        if t == "Debug":
            if s.get("name") is not None:
                ps.append(("name", "identbool", s["name"]))
            if s.get("named_field") is not None:
                ps.append(("named_field", "bool", s["named_field"]))
            if ps:
                out.append((t, ps))
        elif t == "Default":
            if s.get("flag"):
                out.append((t, []))
    return out


def type_entries(td):
    out = []
    for t in td.traits:
        s = td.tsem.get(t, {})
        if t == "Into":
            for e in s.get("targets", []):
                ps = [("type", "type", e["ty"])]
                if e.get("bound") is not None:
                    ps.append(("bound", "bound", e["bound"]))
                out.append(("Into", ps))
            continue
        ps = []
        if s.get("unsafe"):
            ps.append(("unsafe", "kw", None))
        if s.get("name") is not None:
            ps.append(("name", "identbool", s["name"]))
        if s.get("named_field") is not None:
            ps.append(("named_field", "bool", s["named_field"]))
        if s.get("new"):
            ps.append(("new", "flagbool", True))
        if s.get("expr") is not None:
            ps.append(("expression", "expr", s["expr"]))
        if s.get("bound") is not None:
            ps.append(("bound", "bound", s["bound"]))
        out.append((t, ps))
    for raw in td.tsem.get("_raw", []):
        out.append(("RAW", raw))
    return out


ALLOW_NON_EXHAUSTIVE = True   # C19 builds its values in another crate than the definitions: switched off there
FOREIGN_ATTRS = ["/// documented", "#[allow(dead_code)]", "#[doc = \"d\"]", "#[allow(unused, clippy::all)]",
                 "/** block doc */", "#[cfg(all())]", "#[rustfmt::skip]"]


def render(td, rng=None, canonical=False, spell=None, vis="pub ", strip=False, extras=True,
           order_rng=None, layout=None, entries_hook=None):
    """Rust text of the definition. `spell(level, trait, params, default)` may override spelling."""
    def sp(level, trait, params):
        if trait == "RAW":
            return params
        if spell:
            r = spell(level, trait, params)
            if r is not None:
                return r
        return A.spell_entry(trait, params, level, rng, canonical=canonical or rng is None)

    if order_rng is None and rng is not None and not canonical:
        # entry order inside and across #[educe(..)] attributes is part of the random spelling
        order_rng = rng

    def ents(level, obj, lst):
        if entries_hook is not None:
            lst = entries_hook(level, obj, list(lst))
        return [sp(level, t, ps) for t, ps in lst]

    def lay(es, ind):
        if strip:
            return ""
        if order_rng is not None:
            es = list(es)
            order_rng.shuffle(es)
        if layout is not None:
            return noise(A.layout_attrs(es, rng, layout, ind), ind)
        return noise(A.layout_attrs(es, None if canonical else rng, None if not canonical else "one", ind), ind)

    def noise(t, ind):
        """foreign attributes (doc comments, lints) before / between / after the educe attributes of the same item"""
        if canonical or rng is None or not FOREIGN_ATTRS or rng.random() >= (0.3 if t else 0.04):
            return t
        lines = t.splitlines(True)
        pool = list(FOREIGN_ATTRS)
        if ALLOW_NON_EXHAUSTIVE and ((ind == "" and td.kind != "union") or (ind == "    " and td.kind == "enum")):
            # legal on structs, enums and variants only; without effect inside the defining crate
            pool += ["#[non_exhaustive]", "#[non_exhaustive]"]
        for _ in range(rng.choice([1, 1, 2])):
            a = rng.choice(pool)
            if a == "#[non_exhaustive]":
                pool = [x for x in pool if x != a]
            lines.insert(rng.randint(0, len(lines)) if rng.random() < 0.5 else 0, ind + a + "\n")
        return "".join(lines)
    out = []
    after = getattr(td, "derives_after", None)
    if td.other_derives and not strip and not after:
        out.append("#[derive(%s)]\n" % ", ".join(td.other_derives))
    if not strip:
        out.append("#[derive(::educe::Educe)]\n")
    if td.other_derives and not strip and after:
        # std's derives in an attribute of their own AFTER the Educe derive: the derive input then shows that attribute
        out.append("#[derive(%s)]\n" % ", ".join(td.other_derives))
    out.append(lay(ents("type", td, type_entries(td)), ""))
    for r in td.reprs:
        out.append("#[repr(%s)]\n" % r)
    where = (" where " + ", ".join(td.where)) if td.where else ""
    head = "%s%s %s%s" % (vis, td.kind, td.name, td.decl_generics())

    def fields_text(v, ind):
        parts = []
        for f in v.fields:
            a = lay(ents("field", f, field_entries(td, f)), ind)
            if not strip:
                a += "".join("%s%s\n" % (ind, x) for x in f.sem.get("_foreign", []))
            if v.style == "named":
                parts.append("%s%s%s%s: %s,\n" % (a, ind, vis if td.kind != "enum" else "", f.name, f.ty))
            else:
                parts.append("%s%s%s%s,\n" % (a, ind, vis if td.kind != "enum" else "", f.ty))
        return "".join(parts)

    if td.kind in ("struct", "union"):
        v = td.variants[0]
        if v.style == "unit":
            out.append("%s%s;\n" % (head, where))
        elif v.style == "named":
            out.append("%s%s {\n%s}\n" % (head, where, fields_text(v, "    ")))
        else:
            out.append("%s(\n%s)%s;\n" % (head, fields_text(v, "    "), where))
    else:
        out.append("%s%s {\n" % (head, where))
        for v in td.variants:
            out.append(lay(ents("variant", v, variant_entries(td, v)), "    "))
            if not strip:
                out.append("".join("    %s\n" % x for x in v.sem.get("_foreign", [])))
            disc = (" = %s" % v.disc) if v.disc is not None else ""
            if v.style == "unit":
                out.append("    %s%s,\n" % (v.name, disc))
            elif v.style == "named":
                out.append("    %s {\n%s    }%s,\n" % (v.name, fields_text(v, "        "), disc))
            else:
                out.append("    %s(\n%s    )%s,\n" % (v.name, fields_text(v, "        "), disc))
        out.append("}\n")
    if extras:
        out.extend(td.extra_items)
    return "".join(out)


# ------------------------------------------------------------------------------------------------
# value domains


def values(td, cap, rng):
    """List of (variant index, tuple of abstract field values). Full product when small, otherwise
    all-zero + single deviations + pairwise deviations + seeded fill."""
    out = []
    per_variant = max(2, cap // max(1, len(td.variants)))
    for vi, v in enumerate(td.variants):
        doms = [f.kind.dom for f in v.fields]
        total = 1
        for d in doms:
            total *= d
        if total <= per_variant:
            vals = list(itertools.product(*[range(d) for d in doms]))
        else:
            seen = []

            def add(t):
                if t not in seen:
                    seen.append(t)
            zero = tuple(0 for _ in doms)
            add(zero)
            for i, d in enumerate(doms):
                for a in range(1, d):
                    t = list(zero)
                    t[i] = a
                    add(tuple(t))
            for i in range(len(doms)):
                for j in range(len(doms)):
                    if i != j and doms[i] > 1 and doms[j] > 2:
                        t = list(zero)
                        t[i], t[j] = 1, 2
                        add(tuple(t))
            tries = 0
            while len(seen) < per_variant and tries < 200:
                add(tuple(rng.randrange(d) for d in doms))
                tries += 1
            if len(seen) > per_variant:
                head = seen[:1 + sum(d - 1 for d in doms)]
                rest = seen[len(head):]
                rng.shuffle(rest)
                seen = (head + rest)[:max(per_variant, len(head))]
            vals = seen
        for t in vals:
            out.append((vi, tuple(t)))
    return out


def emit_value(td, vi, vals, side="side"):
    v = td.variants[vi]
    args = [f.kind.ctor(side, f.slot, a) for f, a in zip(v.fields, vals)]
    path = td.name if td.kind != "enum" else "%s::%s" % (td.name, v.name)
    if v.style == "unit":
        return path
    if v.style == "named":
        return "%s { %s }" % (path, ", ".join("%s: %s" % (f.name, a) for f, a in zip(v.fields, args)))
    return "%s(%s)" % (path, ", ".join(args))


def emit_mk(td, vals, fn="mk"):
    arms = []
    for i, (vi, t) in enumerate(vals):
        arms.append("        %d => %s," % (i, emit_value(td, vi, t)))
    return ("#[allow(unused_variables)]\npub fn %s(i: usize, side: u8) -> %s {\n    match i {\n%s\n        _ => unreachable!(),\n    }\n}\n"
            % (fn, td.inst(), "\n".join(arms)))


def pattern(td, v, binder=lambda f: "f%d" % f.slot):
    path = td.name if td.kind != "enum" else "%s::%s" % (td.name, v.name)
    if v.style == "unit":
        return path
    if v.style == "named":
        return "%s { %s }" % (path, ", ".join("%s: %s" % (f.name, binder(f)) for f in v.fields))
    return "%s(%s)" % (path, ", ".join(binder(f) for f in v.fields))


def emit_fp(td):
    """impl Fp: v<idx>(<field fingerprints>)"""
    arms = []
    for vi, v in enumerate(td.variants):
        body = ['s.push_str("v%d(");' % vi]
        for k, f in enumerate(v.fields):
            if k:
                body.append("s.push(',');")
            body.append("%sPayload::fp(f%d, &mut s);" % (RT, f.slot))
        body.append("s.push(')');")
        arms.append("            %s => { %s }" % (pattern(td, v), " ".join(body)))
    if not td.variants:
        match = "        match *self {}"
    else:
        match = "        match self {\n%s\n        }" % "\n".join(arms)
    return ("impl %sFp for %s {\n    #[allow(unused_mut)]\n    fn fp(&self) -> String {\n        let mut s = String::new();\n%s\n        s\n    }\n}\n"
            % (RT, td.inst(), match))


def describe(td):
    """JSON-able semantic descriptor (evidence / replay)."""
    return {
        "kind": td.kind, "name": td.name, "generics": td.decl_generics(), "inst": td.inst(),
        "where": td.where, "reprs": td.reprs, "traits": td.traits, "tsem": td.tsem,
        "variants": [{"name": v.name, "style": v.style, "disc": v.disc, "sem": v.sem,
                      "fields": [{"name": f.name, "kind": f.kind.key, "sem": f.sem} for f in v.fields]}
                     for v in td.variants],
    }
