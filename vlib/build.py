"""Building and driving the Rust side: D2 in-process runner, D1 generated crates, direct rustc."""
import concurrent.futures as cf
import json
import os
import shutil
import subprocess
import tempfile
import time

from .common import (GUARD, NCPU, REPO, TRAITS, VERIF, WORK, Inconclusive, base_env, log, run,
                     write)

FEATURE_BLOCK = "\n".join('%s = []' % t for t in TRAITS)


def _copy_lock(dst_dir):
    src = os.path.join(REPO, "Cargo.lock")
    dst = os.path.join(dst_dir, "Cargo.lock")
    if os.path.exists(src) and not os.path.exists(dst):
        shutil.copy(src, dst)


# ------------------------------------------------------------------------------------------------
# D2: in-process runner


def inproc_dir():
    return os.path.join(WORK, "inproc")


def setup_inproc():
    d = inproc_dir()
    write(os.path.join(d, "Cargo.toml"), """[package]
name = "educe_inproc"
version = "0.0.0"
edition = "2021"

[lib]
name = "educe"
path = "%s/src/lib.rs"

[[bin]]
name = "runner"
path = "%s/inproc/runner.rs"

[dependencies]
syn = "2"
quote = "1"
proc-macro2 = "1"
enum-ordinalize = { version = "4.2", default-features = false, features = ["derive"] }

[features]
default = [%s]
full = ["syn/full"]
%s

[lints.rust]
unexpected_cfgs = { level = "allow", check-cfg = ['cfg(%s)', 'cfg(docsrs)'] }

[profile.release]
debug-assertions = false
opt-level = 2

[profile.dev]
opt-level = 0
""" % (REPO, VERIF, ", ".join('"%s"' % t for t in TRAITS), FEATURE_BLOCK, GUARD))
    _copy_lock(d)
    return d


_built = {}


def build_inproc(profile="release", features=None, full=False):
    """Build the runner; returns path to the binary. features=None → all 12."""
    key = (profile, tuple(features) if features is not None else None, full)
    if key in _built:
        return _built[key]
    d = setup_inproc()
    tag = profile + ("-full" if full else "")
    if features is not None:
        tag += "-f" + "_".join(features)
    tgt = os.path.join(WORK, "tgt", "inproc-" + ("sub" if features is not None else "all") +
                       ("-full" if full else ""))
    cmd = ["cargo", "build", "--offline", "--bin", "runner"]
    if profile == "release":
        cmd.append("--release")
    if features is not None:
        cmd += ["--no-default-features", "--features", ",".join(features)]
    if full:
        cmd += ["--features", "full"]
    env = base_env({"RUSTFLAGS": "--cfg %s" % GUARD, "CARGO_TARGET_DIR": tgt})
    rc, out, err, wall = run(cmd, cwd=d, env=env, timeout=900)
    if rc != 0:
        raise Inconclusive("building the in-process runner failed (profile=%s):\n%s" %
                           (profile, err[-6000:]))
    exe = os.path.join(tgt, "release" if profile == "release" else "debug", "runner")
    if features is not None:
        # keep a private copy: the next subset build overwrites the binary
        keep = os.path.join(WORK, "bin", "runner-" + tag)
        os.makedirs(os.path.dirname(keep), exist_ok=True)
        shutil.copy(exe, keep)
        exe = keep
    _built[key] = exe
    return exe


def _write_cases(path, cases):
    with open(path, "wb") as f:
        for cid, src in cases:
            b = src.encode()
            f.write(("@@CASE %s %d\n" % (cid, len(b))).encode())
            f.write(b)
            f.write(b"\n")


def _run_chunk(exe, cases, repeat, items, timeout, env=None, pre_args=()):
    """Run one runner process over cases; survive crashes/hangs by restarting after the culprit."""
    results = {}
    pending = list(cases)
    while pending:
        fd, path = tempfile.mkstemp(prefix="inproc_", suffix=".in", dir=os.path.join(WORK, "tmp"))
        os.close(fd)
        _write_cases(path, pending)
        # (arguments the runner does not know are taken for the input path, the last one wins: `pre_args` — the command line
        # of a compiler, say — go in front of it)
        cmd = [exe] + list(pre_args) + [path, "--repeat", str(repeat)]
        if not items:
            cmd.append("--no-items")
        rc, out, err, wall = run(cmd, timeout=timeout, env=env)
        os.unlink(path)
        begun = None
        for line in out.splitlines():
            if not line.startswith("{"):
                continue
            try:
                o = json.loads(line)
            except ValueError:
                continue
            if "begin" in o:
                begun = o["begin"]
            elif "id" in o:
                results[o["id"]] = o
                begun = None
        if rc == 0:
            break
        # abnormal end: attribute to the case that had begun but not finished
        ids = [c[0] for c in pending]
        if begun is None or begun not in ids:
            # nothing attributable: give up on the rest as harness errors
            for cid in ids:
                if cid not in results:
                    results[cid] = {"id": cid, "st": "harness", "msg": "runner rc=%s: %s" %
                                    (rc, err[-300:])}
            break
        results[begun] = {"id": begun, "st": "timeout" if rc is None else "crash",
                          "msg": "runner rc=%s %s" % (rc, err[-300:]), "stable": True}
        k = ids.index(begun)
        pending = pending[k + 1:]
    return results


def run_inproc(cases, repeat=1, profile="release", features=None, items=True, procs=None,
               timeout=300, full=False):
    """cases: list of (id, source). Returns dict id -> result object."""
    exe = build_inproc(profile, features, full)
    os.makedirs(os.path.join(WORK, "tmp"), exist_ok=True)
    procs = procs or NCPU
    n = max(1, min(procs, (len(cases) + 49) // 50))
    chunks = [cases[i::n] for i in range(n)]
    results = {}
    with cf.ThreadPoolExecutor(max_workers=n) as ex:
        for r in ex.map(lambda c: _run_chunk(exe, c, repeat, items, timeout), chunks):
            results.update(r)
    return results


# ------------------------------------------------------------------------------------------------
# D1: generated crates that use the real proc macro


def d1_dir(name):
    return os.path.join(WORK, "d1", name)


def setup_d1(name, bins, rt=True, lib=None, extra_toml="", no_std_lib=None, educe_features=None, edition="2021"):
    """Create a cargo package `name` with the given {bin name: source}. Returns its dir."""
    d = d1_dir(name)
    srcdir = os.path.join(d, "src", "bin")
    os.makedirs(srcdir, exist_ok=True)
    want = set()
    for b, src in bins.items():
        write(os.path.join(srcdir, b + ".rs"), src)
        want.add(b + ".rs")
    for f in os.listdir(srcdir):
        if f not in want:
            os.unlink(os.path.join(srcdir, f))
    deps = 'educe = { path = "%s"%s }\n' % (REPO, (', features = [%s]' % ", ".join('"%s"' % f for f in educe_features))
                                            if educe_features else "")
    if rt:
        deps += 'verif_rt = { path = "%s/rt" }\n' % VERIF
    toml = """[package]
name = "%s"
version = "0.0.0"
edition = "%s"
autobins = true

[dependencies]
%s
[profile.dev]
debug = 0
incremental = false

[profile.release]
debug = 0
incremental = false
%s
""" % (name, edition, deps, extra_toml)
    if lib is not None:
        write(os.path.join(d, "src", "lib.rs"), lib)
    else:
        try:
            os.unlink(os.path.join(d, "src", "lib.rs"))
        except OSError:
            pass
    write(os.path.join(d, "Cargo.toml"), toml)
    _copy_lock(d)
    return d


def parse_cargo_json(out):
    """Yield (target_name, diagnostic-dict) for compiler messages in cargo's JSON stream."""
    for line in out.splitlines():
        if not line.startswith("{"):
            continue
        try:
            o = json.loads(line)
        except ValueError:
            continue
        if o.get("reason") == "compiler-message":
            yield o.get("target", {}).get("name"), o.get("target", {}).get("kind"), o["message"]


def cargo_build_d1(name, toolchain=None, release=False, target_dir=None, rustflags=None,
                   extra_args=None, timeout=1800, subcmd="build"):
    """cargo build --message-format=json; returns (rc, [(bin, diag)], stderr)."""
    d = d1_dir(name)
    cmd = ["cargo"]
    if toolchain:
        cmd.append("+" + toolchain)
    cmd += [subcmd, "--offline", "--message-format=json", "--bins", "-j", str(NCPU), "--keep-going"]
    if release:
        cmd.append("--release")
    if extra_args:
        cmd += extra_args
    env = {"CARGO_TARGET_DIR": target_dir or os.path.join(WORK, "tgt", "d1-stable")}
    if rustflags:
        env["RUSTFLAGS"] = rustflags
    rc, out, err, wall = run(cmd, cwd=d, env=base_env(env), timeout=timeout)
    if rc is None:
        raise Inconclusive("cargo build timed out for %s" % name)
    diags = [(t, k, m) for t, k, m in parse_cargo_json(out)]
    return rc, diags, err


def diag_lines(msg, primary_only=False):
    """All (file, line_start, line_end, in_educe_expansion) spans of a rustc JSON diagnostic,
    following macro expansions back to the user's source.  `primary_only`: only the primary spans of the message
    itself (notes such as "a function of the same name is available here" point at unrelated places)."""
    res = []

    def walk(sp, via_educe):
        exp = sp.get("expansion")
        if exp:
            ve = via_educe or "Educe" in (exp.get("macro_decl_name") or "")
            walk(exp["span"], ve)
            # also the span itself when it lies in the user's file
        res.append((sp.get("file_name"), sp.get("line_start"), sp.get("line_end"), via_educe or bool(
            exp and "Educe" in (exp.get("macro_decl_name") or ""))))

    for sp in msg.get("spans", []):
        if primary_only and not sp.get("is_primary"):
            continue
        walk(sp, False)
    if primary_only:
        return res
    for ch in msg.get("children", []):
        for sp in ch.get("spans", []):
            walk(sp, False)
    return res


def bin_path(name, b, release=False, target_dir=None, triple=None):
    tgt = target_dir or os.path.join(WORK, "tgt", "d1-stable")
    parts = [tgt]
    if triple:
        parts.append(triple)
    parts.append("release" if release else "debug")
    parts.append(b)
    return os.path.join(*parts)


def run_bins(paths, timeout=600, env=None, args=None):
    """Run binaries in parallel; returns {path: (rc, stdout, stderr)}."""
    res = {}

    def one(p):
        rc, out, err, wall = run([p] + (args or []), env=env, timeout=timeout)
        return p, (rc, out, err)

    with cf.ThreadPoolExecutor(max_workers=NCPU) as ex:
        for p, r in ex.map(one, paths):
            res[p] = r
    return res
