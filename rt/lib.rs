//! verif_rt — monitors linked into every generated program.
//!
//! * instrumented field types `T` (everything), `Ct` (Copy twin), `P` (partial: NaN-like payload)
//! * a thread-local event log written by every trait method of those types and by the custom methods
//! * `RecHasher`, a `Hasher` that records the exact sequence of write calls
//! * `Payload` (abstract value + fingerprint) and `Fp` (fingerprint of a whole value)
//! * generic drivers that run an operation over all (pairs of) values of a case and print one
//!   tab-separated observation line per execution:  R <case> <op> <i> <j> <result> <events>
#![allow(clippy::all)]
// under Miri (always a nightly toolchain) the recording hasher also overrides the unstable length-prefix hooks
#![cfg_attr(miri, feature(hasher_prefixfree_extras))]
use std::{
    cell::RefCell,
    cmp::Ordering,
    fmt,
    hash::{Hash, Hasher},
    marker::PhantomData,
};

thread_local! {
    static LOG: RefCell<Vec<String>> = RefCell::new(Vec::new());
}

pub fn begin() {
    LOG.with(|l| l.borrow_mut().clear());
}

pub fn take() -> String {
    LOG.with(|l| {
        let mut l = l.borrow_mut();
        let s = if l.is_empty() { "-".to_string() } else { l.join(",") };
        l.clear();
        s
    })
}

#[inline(never)]
fn ev(s: String) {
    LOG.with(|l| {
        let mut l = l.borrow_mut();
        if l.len() < 64 {
            l.push(s)
        }
    });
}

pub fn hex(s: &str) -> String {
    let mut o = String::with_capacity(s.len() * 2 + 1);
    if s.is_empty() {
        o.push('~');
    }
    for b in s.bytes() {
        o.push_str(&format!("{b:02x}"));
    }
    o
}

// ------------------------------------------------------------------------------------------------
// instrumented field types

macro_rules! field_type {
    ($name:ident, $tag:literal) => {
        pub struct $name {
            pub side: u8,
            pub slot: u8,
            pub v:    i8,
            pub gen:  u8,
        }

        impl $name {
            #[inline]
            pub const fn mk(side: u8, slot: u8, a: i8) -> Self {
                Self {
                    side,
                    slot,
                    v: a,
                    gen: 0,
                }
            }

            fn id(&self) -> String {
                format!("{}.{}", self.side, self.slot)
            }
        }

        // Decoys: inherent methods named like the trait methods the generated code calls on its fields, with
        // compatible signatures.  Method-call syntax (`self.a.hash(state)`) would pick these instead of the trait's.
        #[allow(clippy::should_implement_trait, dead_code, unused_variables)]
        impl $name {
            pub fn hash<HH: ::std::hash::Hasher>(&self, state: &mut HH) {
                panic!("DECOY: inherent `hash` of a field type was called");
            }

            pub fn clone(&self) -> Self {
                panic!("DECOY: inherent `clone` of a field type was called");
            }

            pub fn clone_from(&mut self, source: &Self) {
                panic!("DECOY: inherent `clone_from` of a field type was called");
            }

            pub fn eq(&self, other: &Self) -> bool {
                panic!("DECOY: inherent `eq` of a field type was called");
            }

            pub fn ne(&self, other: &Self) -> bool {
                panic!("DECOY: inherent `ne` of a field type was called");
            }

            pub fn cmp(&self, other: &Self) -> ::std::cmp::Ordering {
                panic!("DECOY: inherent `cmp` of a field type was called");
            }

            pub fn partial_cmp(&self, other: &Self) -> Option<::std::cmp::Ordering> {
                panic!("DECOY: inherent `partial_cmp` of a field type was called");
            }

            pub fn fmt(&self, f: &mut fmt::Formatter<'_>) -> fmt::Result {
                panic!("DECOY: inherent `fmt` of a field type was called");
            }

            pub fn default() -> Self {
                panic!("DECOY: inherent `default` of a field type was called");
            }

            pub fn into<XX>(self) -> XX {
                panic!("DECOY: inherent `into` of a field type was called");
            }
        }

        impl fmt::Debug for $name {
            fn fmt(&self, f: &mut fmt::Formatter<'_>) -> fmt::Result {
                ev(format!("dbg:{}", self.id()));
                f.debug_struct($tag).field("v", &self.v).finish()
            }
        }

        impl Default for $name {
            fn default() -> Self {
                ev("dflt".to_string());
                Self {
                    side: 9, slot: 99, v: -7, gen: 0
                }
            }
        }

        impl Payload for $name {
            fn a(&self) -> i8 {
                self.v
            }

            fn fp(&self, out: &mut String) {
                out.push_str(&format!("{}{}.{}.{}.{}", $tag, self.side, self.slot, self.v, self.gen));
            }

            fn clone_alt(&self) -> Self {
                Self {
                    side: self.side,
                    slot: self.slot,
                    v:    self.v,
                    gen:  self.gen.wrapping_add(10),
                }
            }

            fn mkp(side: u8, slot: u8, a: i8) -> Self {
                Self::mk(side, slot, a)
            }
        }
    };
}

field_type!(T, "T");
field_type!(Ct, "C");
field_type!(P, "P");

macro_rules! total_impls {
    ($name:ident) => {
        impl PartialEq for $name {
            fn eq(&self, o: &Self) -> bool {
                ev(format!("eq:{}/{}", self.id(), o.id()));
                self.v == o.v
            }

            #[allow(clippy::partialeq_ne_impl)]
            fn ne(&self, o: &Self) -> bool {
                ev(format!("ne:{}/{}", self.id(), o.id()));
                self.v != o.v
            }
        }

        impl Eq for $name {}

        impl PartialOrd for $name {
            fn partial_cmp(&self, o: &Self) -> Option<Ordering> {
                ev(format!("pc:{}/{}", self.id(), o.id()));
                Some(self.v.cmp(&o.v))
            }
        }

        impl Ord for $name {
            fn cmp(&self, o: &Self) -> Ordering {
                ev(format!("c:{}/{}", self.id(), o.id()));
                self.v.cmp(&o.v)
            }
        }

        impl Hash for $name {
            fn hash<H: Hasher>(&self, state: &mut H) {
                ev(format!("h:{}", self.id()));
                state.write_u8(0xA0);
                state.write_u8(self.slot);
                state.write_i8(self.v);
            }
        }
    };
}

total_impls!(T);
total_impls!(Ct);

impl Clone for T {
    fn clone(&self) -> Self {
        ev(format!("cl:{}", self.id()));
        T {
            side: self.side, slot: self.slot, v: self.v, gen: self.gen.wrapping_add(1)
        }
    }

    fn clone_from(&mut self, s: &Self) {
        ev(format!("cf:{}<-{}", self.id(), s.id()));
        *self = T {
            side: s.side, slot: s.slot, v: s.v, gen: s.gen.wrapping_add(1)
        };
    }
}

// the Copy twin: a bitwise copy leaves `gen` unchanged, Clone::clone bumps it
impl Copy for Ct {}

impl Clone for Ct {
    fn clone(&self) -> Self {
        ev(format!("cl:{}", self.id()));
        Ct {
            side: self.side, slot: self.slot, v: self.v, gen: self.gen.wrapping_add(1)
        }
    }
}

/// payload value that behaves like NaN
pub const NAN: i8 = 2;

impl PartialEq for P {
    fn eq(&self, o: &Self) -> bool {
        ev(format!("eq:{}/{}", self.id(), o.id()));
        self.v != NAN && o.v != NAN && self.v == o.v
    }

    #[allow(clippy::partialeq_ne_impl)]
    fn ne(&self, o: &Self) -> bool {
        ev(format!("ne:{}/{}", self.id(), o.id()));
        !(self.v != NAN && o.v != NAN && self.v == o.v)
    }
}

impl PartialOrd for P {
    fn partial_cmp(&self, o: &Self) -> Option<Ordering> {
        ev(format!("pc:{}/{}", self.id(), o.id()));
        if self.v == NAN || o.v == NAN {
            None
        } else {
            Some(self.v.cmp(&o.v))
        }
    }
}

impl Clone for P {
    fn clone(&self) -> Self {
        ev(format!("cl:{}", self.id()));
        P {
            side: self.side, slot: self.slot, v: self.v, gen: self.gen.wrapping_add(1)
        }
    }
}

// ------------------------------------------------------------------------------------------------
// Payload: abstract value, fingerprint, marked clone

pub trait Payload {
    /// abstract value (small integer) — what the custom methods and the oracles work on
    fn a(&self) -> i8;
    fn fp(&self, out: &mut String);
    fn clone_alt(&self) -> Self
    where
        Self: Sized;
    /// construct a leaf value (only meaningful for the instrumented leaf types)
    fn mkp(_side: u8, _slot: u8, _a: i8) -> Self
    where
        Self: Sized,
    {
        unreachable!("mkp on a non-leaf payload")
    }
}

impl<X: Payload> Payload for Option<X> {
    fn a(&self) -> i8 {
        match self {
            None => 0,
            Some(x) => x.a() + 1,
        }
    }

    fn fp(&self, out: &mut String) {
        match self {
            None => out.push('N'),
            Some(x) => {
                out.push_str("S(");
                x.fp(out);
                out.push(')');
            },
        }
    }

    fn clone_alt(&self) -> Self {
        self.as_ref().map(|x| x.clone_alt())
    }
}

impl<X: Payload> Payload for Vec<X> {
    fn a(&self) -> i8 {
        match self.first() {
            None => 0,
            Some(x) => x.a() + 1,
        }
    }

    fn fp(&self, out: &mut String) {
        out.push_str("V[");
        for (i, x) in self.iter().enumerate() {
            if i > 0 {
                out.push(';');
            }
            x.fp(out);
        }
        out.push(']');
    }

    fn clone_alt(&self) -> Self {
        self.iter().map(|x| x.clone_alt()).collect()
    }
}

/// a user-defined generic wrapper (std derives: every impl is bounded by `X: Trait`)
#[derive(Debug, Clone, Copy, PartialEq, Eq, PartialOrd, Ord, Hash, Default)]
pub struct Wrap<X>(pub X);

impl<X: Payload> Payload for Wrap<X> {
    fn a(&self) -> i8 {
        self.0.a()
    }

    fn fp(&self, out: &mut String) {
        out.push_str("Wr(");
        self.0.fp(out);
        out.push(')');
    }

    fn clone_alt(&self) -> Self {
        Wrap(self.0.clone_alt())
    }
}

pub fn vec1<X>(x: X) -> Vec<X> {
    vec![x]
}

impl<X: Payload> Payload for [X; 2] {
    fn a(&self) -> i8 {
        self[0].a() * 2 + self[1].a()
    }

    fn fp(&self, out: &mut String) {
        out.push('[');
        self[0].fp(out);
        out.push(';');
        self[1].fp(out);
        out.push(']');
    }

    fn clone_alt(&self) -> Self {
        [self[0].clone_alt(), self[1].clone_alt()]
    }
}

impl<X: Payload> Payload for (X, X) {
    fn a(&self) -> i8 {
        self.0.a() * 2 + self.1.a()
    }

    fn fp(&self, out: &mut String) {
        out.push('(');
        self.0.fp(out);
        out.push('|');
        self.1.fp(out);
        out.push(')');
    }

    fn clone_alt(&self) -> Self {
        (self.0.clone_alt(), self.1.clone_alt())
    }
}

impl<X: Payload> Payload for Box<X> {
    fn a(&self) -> i8 {
        (**self).a()
    }

    fn fp(&self, out: &mut String) {
        out.push_str("B(");
        (**self).fp(out);
        out.push(')');
    }

    fn clone_alt(&self) -> Self {
        Box::new((**self).clone_alt())
    }
}

impl<'a, X: Payload> Payload for &'a X {
    fn a(&self) -> i8 {
        (**self).a()
    }

    fn fp(&self, out: &mut String) {
        out.push_str("R(");
        (**self).fp(out);
        out.push(')');
    }

    fn clone_alt(&self) -> Self {
        self
    }
}

impl<'a, X: Payload> Payload for &'a mut X {
    fn a(&self) -> i8 {
        (**self).a()
    }

    fn fp(&self, out: &mut String) {
        out.push_str("M(");
        (**self).fp(out);
        out.push(')');
    }

    fn clone_alt(&self) -> Self {
        unreachable!()
    }
}

impl<X> Payload for PhantomData<X> {
    fn a(&self) -> i8 {
        0
    }

    fn fp(&self, out: &mut String) {
        out.push_str("Ph");
    }

    fn clone_alt(&self) -> Self {
        PhantomData
    }
}

macro_rules! prim_payload {
    ($($t:ty),*) => {$(
        impl Payload for $t {
            fn a(&self) -> i8 {
                *self as i8
            }

            fn fp(&self, out: &mut String) {
                out.push_str(&format!("{}:{}", stringify!($t), self));
            }

            fn clone_alt(&self) -> Self {
                *self
            }
        }
    )*};
}

prim_payload!(u8, u16, u32, u64, u128, i8, i16, i32, i64, i128, usize, isize);

impl Payload for bool {
    fn a(&self) -> i8 {
        *self as i8
    }

    fn fp(&self, out: &mut String) {
        out.push_str(&format!("bool:{self}"));
    }

    fn clone_alt(&self) -> Self {
        *self
    }
}

impl Payload for char {
    fn a(&self) -> i8 {
        (*self as u32 % 100) as i8
    }

    fn fp(&self, out: &mut String) {
        out.push_str(&format!("char:{}", *self as u32));
    }

    fn clone_alt(&self) -> Self {
        *self
    }
}

impl Payload for f64 {
    fn a(&self) -> i8 {
        *self as i8
    }

    fn fp(&self, out: &mut String) {
        out.push_str(&format!("f64:{self:?}"));
    }

    fn clone_alt(&self) -> Self {
        *self
    }
}

impl Payload for f32 {
    fn a(&self) -> i8 {
        *self as i8
    }

    fn fp(&self, out: &mut String) {
        out.push_str(&format!("f32:{self:?}"));
    }

    fn clone_alt(&self) -> Self {
        *self
    }
}

impl<'a> Payload for &'a str {
    fn a(&self) -> i8 {
        self.len() as i8
    }

    fn fp(&self, out: &mut String) {
        out.push_str(&format!("str:{}", hex(self)));
    }

    fn clone_alt(&self) -> Self {
        self
    }
}

impl Payload for String {
    fn a(&self) -> i8 {
        self.len() as i8
    }

    fn fp(&self, out: &mut String) {
        out.push_str(&format!("String:{}", hex(self)));
    }

    fn clone_alt(&self) -> Self {
        self.clone()
    }
}

/// zero-sized filler used for `[Z; N]` fields that consume a const parameter
#[derive(Debug, Clone, Copy, PartialEq, Eq, PartialOrd, Ord, Hash, Default)]
pub struct Z;

impl<const N: usize> Payload for [Z; N] {
    fn a(&self) -> i8 {
        0
    }

    fn fp(&self, out: &mut String) {
        out.push_str(&format!("Z{N}"));
    }

    fn clone_alt(&self) -> Self {
        *self
    }
}

/// logs that the expression given for field `slot` is being evaluated (C08: initialisers run in declaration order)
pub fn seq<X>(slot: u8, x: X) -> X {
    ev(format!("dx:{}", slot));
    x
}

pub fn zs<const N: usize>() -> [Z; N] {
    [Z; N]
}

pub fn fill<X: Copy, const N: usize>(x: X) -> [X; N] {
    [x; N]
}

pub fn arr2<X>(a: X, b: X) -> [X; 2] {
    [a, b]
}

pub fn pair<X>(a: X, b: X) -> (X, X) {
    (a, b)
}

/// fingerprint of a whole value of a generated type (impl generated per case)
pub trait Fp {
    fn fp(&self) -> String;
}

pub fn pfp<X: Payload>(x: &X) -> String {
    let mut s = String::new();
    x.fp(&mut s);
    s
}

// ------------------------------------------------------------------------------------------------
// custom methods handed to `method(..)` attributes; every one differs observably from the built-in
// behaviour of the field type and logs its arguments in order

fn pid<X: Payload>(x: &X) -> String {
    let mut s = String::new();
    x.fp(&mut s);
    s
}

/// lawful alternative equality: equal modulo 2
pub fn eq_mod2<X: Payload>(a: &X, b: &X) -> bool {
    ev(format!("m_eq_mod2:{}/{}", pid(a), pid(b)));
    a.a().rem_euclid(2) == b.a().rem_euclid(2)
}

/// asymmetric (unlawful) relation: shows the argument order in the result
pub fn eq_le<X: Payload>(a: &X, b: &X) -> bool {
    ev(format!("m_eq_le:{}/{}", pid(a), pid(b)));
    a.a() <= b.a()
}

/// lawful reversed order
pub fn cmp_rev<X: Payload>(a: &X, b: &X) -> Ordering {
    ev(format!("m_cmp_rev:{}/{}", pid(a), pid(b)));
    b.a().cmp(&a.a())
}

pub fn pcmp_rev<X: Payload>(a: &X, b: &X) -> Option<Ordering> {
    ev(format!("m_pcmp_rev:{}/{}", pid(a), pid(b)));
    Some(b.a().cmp(&a.a()))
}

/// natural order, but a payload of 2 is incomparable with everything (also itself)
pub fn pcmp_nan2<X: Payload>(a: &X, b: &X) -> Option<Ordering> {
    ev(format!("m_pcmp_nan2:{}/{}", pid(a), pid(b)));
    if a.a() == 2 || b.a() == 2 {
        None
    } else {
        Some(a.a().cmp(&b.a()))
    }
}

pub fn hash_alt<X: Payload, H: Hasher>(x: &X, state: &mut H) {
    ev(format!("m_hash_alt:{}", pid(x)));
    state.write_u8(0xEE);
    state.write_i8(x.a().rem_euclid(2));
}

/// custom Debug method for any field type (C19's directed templates)
pub fn zz_dbg<X>(_x: &X, f: &mut fmt::Formatter<'_>) -> fmt::Result {
    f.write_str("zz")
}

/// custom Debug method for possibly unsized values: prints the size of the value and the type it was instantiated with
/// (a `&&T` handed over instead of a `&T` shows in both)
pub fn zz_szv<X: ?Sized>(x: &X, f: &mut fmt::Formatter<'_>) -> fmt::Result {
    write!(f, "<{}:{}>", ::std::mem::size_of_val(x), ::std::any::type_name::<X>())
}

pub fn fmt_alt<X: Payload>(x: &X, f: &mut fmt::Formatter<'_>) -> fmt::Result {
    ev(format!("m_fmt_alt:{}", pid(x)));
    // the size of the type the method was instantiated with shows whether it got the field or a reference to it
    if f.alternate() {
        write!(f, "alt<{}:{}>", x.a(), ::std::mem::size_of::<X>())
    } else {
        write!(f, "m<{}:{}>", x.a(), ::std::mem::size_of::<X>())
    }
}

pub fn clone_alt<X: Payload>(x: &X) -> X {
    ev(format!("m_clone_alt:{}", pid(x)));
    x.clone_alt()
}

/// The custom methods again, as methods of traits that are named like the std traits: `::verif_rt::named::Hash::hash`
/// is a custom method like any other (the field types implement the real `Hash` as well).
pub mod named {
    use super::Payload;
    use std::cmp::Ordering;
    use std::fmt;
    use std::hash::Hasher;

    pub trait Hash {
        fn hash<H: Hasher>(&self, state: &mut H);
    }
    impl<X: Payload> Hash for X {
        fn hash<H: Hasher>(&self, state: &mut H) {
            super::hash_alt(self, state)
        }
    }
    pub trait PartialEq {
        fn eq(&self, other: &Self) -> bool;
    }
    impl<X: Payload> PartialEq for X {
        fn eq(&self, other: &Self) -> bool {
            super::eq_mod2(self, other)
        }
    }
    pub trait Ord {
        fn cmp(&self, other: &Self) -> Ordering;
    }
    impl<X: Payload> Ord for X {
        fn cmp(&self, other: &Self) -> Ordering {
            super::cmp_rev(self, other)
        }
    }
    pub trait PartialOrd {
        fn partial_cmp(&self, other: &Self) -> Option<Ordering>;
    }
    impl<X: Payload> PartialOrd for X {
        fn partial_cmp(&self, other: &Self) -> Option<Ordering> {
            super::pcmp_rev(self, other)
        }
    }
    pub trait Debug {
        fn fmt(&self, f: &mut fmt::Formatter<'_>) -> fmt::Result;
    }
    impl<X: Payload> Debug for X {
        fn fmt(&self, f: &mut fmt::Formatter<'_>) -> fmt::Result {
            super::fmt_alt(self, f)
        }
    }
    pub trait Clone {
        fn clone(&self) -> Self;
    }
    impl<X: Payload> Clone for X {
        fn clone(&self) -> Self {
            super::clone_alt(self)
        }
    }
}

/// a custom hash method for plain `u8` fields that feeds exactly what the built-in one feeds
pub fn hash_u8_plain<H: Hasher>(x: &u8, state: &mut H) {
    state.write_u8(*x);
}

pub fn into_u8_alt<X: Payload>(x: X) -> u8 {
    ev(format!("m_into_u8_alt:{}", pid(&x)));
    (x.a() as u8).wrapping_add(100)
}

pub fn into_u16_alt<X: Payload>(x: X) -> u16 {
    ev(format!("m_into_u16_alt:{}", pid(&x)));
    (x.a() as u16).wrapping_add(1000)
}

/// targets of the generic custom conversion `into_alt` (one method path for every target, so that a method
/// applied for the wrong target still type-checks and shows in the value)
pub trait AltTarget {
    fn from_alt(a: i8) -> Self;
}

impl AltTarget for u8 {
    fn from_alt(a: i8) -> Self {
        (a as u8).wrapping_add(100)
    }
}

impl AltTarget for u16 {
    fn from_alt(a: i8) -> Self {
        (a as u16).wrapping_add(1000)
    }
}

impl AltTarget for W {
    fn from_alt(a: i8) -> Self {
        W(a as i32 + 5000)
    }
}

impl AltTarget for T {
    fn from_alt(a: i8) -> Self {
        T::mk(8, 88, a)
    }
}

pub fn into_alt<X: Payload, R: AltTarget>(x: X) -> R {
    ev(format!("m_into_alt:{}", pid(&x)));
    R::from_alt(x.a())
}

pub fn into_t_alt<X: Payload>(x: X) -> T {
    ev(format!("m_into_t_alt:{}", pid(&x)));
    T::mk(8, 88, x.a())
}

pub fn into_w_alt<X: Payload>(x: X) -> W {
    ev(format!("m_into_w_alt:{}", pid(&x)));
    W(x.a() as i32 + 5000)
}

/// a conversion target with From impls from the instrumented types and from literals
#[derive(Debug, Clone, PartialEq)]
pub struct W(pub i32);

macro_rules! w_from {
    ($($t:ty => $f:expr),*) => {$(
        impl From<$t> for W {
            fn from(x: $t) -> W {
                ev(format!("into_w:{}", stringify!($t)));
                #[allow(clippy::redundant_closure_call)]
                W(($f)(x))
            }
        }
    )*};
}

w_from!(T => |x: T| x.v as i32 + 200, Ct => |x: Ct| x.v as i32 + 300, i32 => |x: i32| x + 400,
        u8 => |x: u8| x as i32 + 500, bool => |x: bool| x as i32 + 600, char => |x: char| x as i32 + 700,
        f64 => |x: f64| x as i32 + 800, &'static str => |x: &'static str| x.len() as i32 + 900,
        u16 => |x: u16| x as i32 + 1100);

impl Payload for W {
    fn a(&self) -> i8 {
        self.0 as i8
    }

    fn fp(&self, out: &mut String) {
        out.push_str(&format!("W:{}", self.0));
    }

    fn clone_alt(&self) -> Self {
        W(self.0)
    }
}

impl Default for W {
    fn default() -> Self {
        W(-1)
    }
}

impl From<T> for u8 {
    fn from(x: T) -> u8 {
        ev("into_u8:T".to_string());
        x.v as u8 + 10
    }
}

impl From<Ct> for u8 {
    fn from(x: Ct) -> u8 {
        ev("into_u8:Ct".to_string());
        x.v as u8 + 20
    }
}

impl From<T> for u16 {
    fn from(x: T) -> u16 {
        ev("into_u16:T".to_string());
        x.v as u16 + 30
    }
}

impl From<Ct> for u16 {
    fn from(x: Ct) -> u16 {
        ev("into_u16:Ct".to_string());
        x.v as u16 + 40
    }
}

// ------------------------------------------------------------------------------------------------
// recording hasher

#[derive(Default)]
pub struct RecHasher {
    /// the exact sequence of calls
    pub rec: String,
    /// the bytes a hasher with the default `write_*` forwarding would receive, flattened (hex)
    pub flat: String,
}

impl RecHasher {
    pub fn new() -> Self {
        Self::default()
    }
}

macro_rules! rec_write {
    ($($f:ident: $t:ty),*) => {$(
        fn $f(&mut self, i: $t) {
            self.rec.push_str(&format!("{}({});", &stringify!($f)[6..], i));
            for b in i.to_ne_bytes() {
                self.flat.push_str(&format!("{b:02x}"));
            }
        }
    )*};
}

impl Hasher for RecHasher {
    rec_write!(write_u8: u8, write_u16: u16, write_u32: u32, write_u64: u64, write_u128: u128,
               write_usize: usize, write_i8: i8, write_i16: i16, write_i32: i32, write_i64: i64,
               write_i128: i128, write_isize: isize);

    fn finish(&self) -> u64 {
        0
    }

    /// the hook through which slices announce their length (unstable: only compiled under Miri's nightly toolchain);
    /// code that writes the length itself with `write_usize` is told apart from code that hashes a slice
    #[cfg(miri)]
    fn write_length_prefix(&mut self, len: usize) {
        self.rec.push_str(&format!("len({});", len));
        for b in len.to_ne_bytes() {
            self.flat.push_str(&format!("{b:02x}"));
        }
    }

    fn write(&mut self, bytes: &[u8]) {
        self.rec.push_str("b(");
        for b in bytes {
            self.rec.push_str(&format!("{b:02x}"));
            self.flat.push_str(&format!("{b:02x}"));
        }
        self.rec.push_str(");");
    }
}

/// flattened bytes of the hash input (what any hasher using the default integer forwarding sees)
pub fn flat_hash<X: Hash + ?Sized>(x: &X) -> String {
    let mut h = RecHasher::new();
    x.hash(&mut h);
    if h.flat.is_empty() {
        "~".to_string()
    } else {
        h.flat
    }
}

pub fn rec_hash<X: Hash + ?Sized>(x: &X) -> String {
    let mut h = RecHasher::new();
    x.hash(&mut h);
    if h.rec.is_empty() {
        "~".to_string()
    } else {
        h.rec
    }
}

// ------------------------------------------------------------------------------------------------
// drivers: one observation line per execution

pub fn case_begin(case: &str) {
    println!("B\t{case}");
}

pub fn case_end(case: &str) {
    println!("Z\t{case}");
}

fn line(case: &str, op: &str, i: usize, j: isize, res: &str, evs: &str) {
    println!("R\t{case}\t{op}\t{i}\t{j}\t{res}\t{evs}");
}

fn ord_s(o: Ordering) -> &'static str {
    match o {
        Ordering::Less => "L",
        Ordering::Equal => "E",
        Ordering::Greater => "G",
    }
}

pub fn drive_eq<X: PartialEq>(case: &str, n: usize, mk: &dyn Fn(usize, u8) -> X) {
    for i in 0..n {
        for j in 0..n {
            let (a, b) = (mk(i, 0), mk(j, 1));
            begin();
            let r = a == b;
            let e = take();
            line(case, "eq", i, j as isize, if r { "1" } else { "0" }, &e);
            begin();
            let r = a != b;
            let e = take();
            line(case, "ne", i, j as isize, if r { "1" } else { "0" }, &e);
        }
    }
}

/// a value compared with itself *by address* (the same object on both sides)
pub fn drive_eq_self<X: PartialEq>(case: &str, n: usize, mk: &dyn Fn(usize, u8) -> X) {
    for i in 0..n {
        let a = mk(i, 0);
        begin();
        let r = a == a;
        let r2 = a != a;
        let e = take();
        line(case, "eqself", i, i as isize, &format!("{}{}", r as u8, r2 as u8), &e);
    }
}

pub fn drive_cmp_self<X: Ord>(case: &str, n: usize, mk: &dyn Fn(usize, u8) -> X) {
    for i in 0..n {
        let a = mk(i, 0);
        begin();
        let r = a.cmp(&a);
        let e = take();
        line(case, "cmpself", i, i as isize, ord_s(r), &e);
    }
}

pub fn drive_pcmp_self<X: PartialOrd>(case: &str, n: usize, mk: &dyn Fn(usize, u8) -> X) {
    for i in 0..n {
        let a = mk(i, 0);
        begin();
        let r = a.partial_cmp(&a);
        let e = take();
        begin();
        #[allow(clippy::eq_op)]
        let ops = format!("{}{}{}{}", (a < a) as u8, (a <= a) as u8, (a > a) as u8, (a >= a) as u8);
        let _ = take();
        line(case, "pcmpself", i, i as isize, &format!("{}\t{}", r.map(ord_s).unwrap_or("N"), ops), &e);
    }
}

/// address and size of the referent, without any deref coercion at the call site
pub fn addr_size<X: ?Sized>(r: &X) -> (usize, usize) {
    (r as *const X as *const u8 as usize, ::std::mem::size_of_val(r))
}

pub fn drive_cmp<X: Ord>(case: &str, n: usize, mk: &dyn Fn(usize, u8) -> X) {
    for i in 0..n {
        for j in 0..n {
            let (a, b) = (mk(i, 0), mk(j, 1));
            begin();
            let r = a.cmp(&b);
            let e = take();
            line(case, "cmp", i, j as isize, ord_s(r), &e);
        }
    }
}

pub fn drive_pcmp<X: PartialOrd>(case: &str, n: usize, mk: &dyn Fn(usize, u8) -> X) {
    for i in 0..n {
        for j in 0..n {
            let (a, b) = (mk(i, 0), mk(j, 1));
            begin();
            let r = a.partial_cmp(&b);
            let e = take();
            // the four operators, as the user sees the ordering (their own events are not of interest)
            begin();
            let ops = format!("{}{}{}{}", (a < b) as u8, (a <= b) as u8, (a > b) as u8, (a >= b) as u8);
            let _ = take();
            line(case, "pcmp", i, j as isize, &format!("{}\t{}", r.map(ord_s).unwrap_or("N"), ops), &e);
        }
    }
}

pub fn drive_hash<X: Hash>(
    case: &str,
    n: usize,
    mk: &dyn Fn(usize, u8) -> X,
    reference: &dyn Fn(&X) -> String,
) {
    for i in 0..n {
        for side in 0..2u8 {
            let a = mk(i, side);
            begin();
            let r = rec_hash(&a);
            let e = take();
            begin();
            let want = reference(&a);
            let _ = take();
            let flat = flat_hash(&a);
            let _ = take();
            line(case, "hash", i, side as isize, &format!("{r}\t{want}\t{flat}"), &e);
        }
    }
    // values inside a slice are fed one after the other behind the length (`Hash::hash_slice` is not the impl's to change)
    for i in 0..n {
        let pair = [mk(i, 0), mk((i + 1) % n, 1)];
        begin();
        let got = rec_hash(&pair[..]);
        let unit = rec_hash(&[(), ()][..]);
        let a = rec_hash(&pair[0]);
        let b = rec_hash(&pair[1]);
        let _ = take();
        let part = |s: String| if s == "~" { String::new() } else { s };
        let want = format!("{}{}{}", part(unit), part(a), part(b));
        line(case, "hslice", i, -1, &format!("{}\t{}\t{}", (part(got.clone()) == want) as u8, got, want), "-");
    }
}

/// what a slice of two `x` feeds, next to what the length and the two values feed one after the other
pub fn slice_hash_pair<X: Hash>(x: &X, y: &X, both: &[X]) -> (String, String) {
    let part = |s: String| if s == "~" { String::new() } else { s };
    let want = format!("{}{}{}", part(rec_hash(&[(), ()][..])), part(rec_hash(x)), part(rec_hash(y)));
    (part(rec_hash(both)), want)
}

pub fn drive_debug<X: fmt::Debug>(
    case: &str,
    n: usize,
    mk: &dyn Fn(usize, u8) -> X,
    reference: &dyn Fn(&X, &mut fmt::Formatter<'_>) -> fmt::Result,
) {
    struct Ref<'a, X>(&'a X, &'a dyn Fn(&X, &mut fmt::Formatter<'_>) -> fmt::Result);
    impl<'a, X> fmt::Debug for Ref<'a, X> {
        fn fmt(&self, f: &mut fmt::Formatter<'_>) -> fmt::Result {
            (self.1)(self.0, f)
        }
    }
    for i in 0..n {
        let a = mk(i, 0);
        begin();
        let got = format!("{a:?}");
        let e = take();
        let want = format!("{:?}", Ref(&a, reference));
        let _ = take();
        line(case, "dbg", i, -1, &format!("{}\t{}", hex(&got), hex(&want)), &e);
        begin();
        let got = format!("{a:#?}");
        let e = take();
        let want = format!("{:#?}", Ref(&a, reference));
        let _ = take();
        line(case, "dbgp", i, -1, &format!("{}\t{}", hex(&got), hex(&want)), &e);
        // a width/precision/flag mix must be passed through to the builders unchanged
        let got = format!("{a:+08.3?}");
        let want = format!("{:+08.3?}", Ref(&a, reference));
        let _ = take();
        line(case, "dbgf", i, -1, &format!("{}\t{}", hex(&got), hex(&want)), "-");
        // debug-hex flag together with the alternate flag
        let got = format!("{a:#x?}");
        let want = format!("{:#x?}", Ref(&a, reference));
        let _ = take();
        line(case, "dbgx", i, -1, &format!("{}\t{}", hex(&got), hex(&want)), "-");
    }
}

pub fn drive_clone<X: Clone + Fp>(case: &str, n: usize, mk: &dyn Fn(usize, u8) -> X) {
    for i in 0..n {
        let a = mk(i, 0);
        begin();
        let c = a.clone();
        let e = take();
        line(case, "clone", i, -1, &format!("{}\t{}", c.fp(), a.fp()), &e);
    }
    for i in 0..n {
        for j in 0..n {
            let mut a = mk(i, 0);
            let b = mk(j, 1);
            begin();
            a.clone_from(&b);
            let e = take();
            let want = b.clone();
            let _ = take();
            line(case, "clone_from", i, j as isize, &format!("{}\t{}\t{}", a.fp(), want.fp(), b.fp()), &e);
        }
    }
}

pub fn drive_default<X: Default + Fp>(case: &str, new: Option<&dyn Fn() -> X>) {
    begin();
    let d = X::default();
    let e = take();
    line(case, "default", 0, -1, &d.fp(), &e);
    if let Some(new) = new {
        begin();
        let d = new();
        let e = take();
        line(case, "new", 0, -1, &d.fp(), &e);
    }
}

/// free-form observation
pub fn obs(case: &str, op: &str, i: usize, j: isize, res: &str) {
    let e = take();
    line(case, op, i, j, res, &e);
}

/// run one case, turning a panic into an observation instead of losing the whole process
pub fn guarded(case: &str, f: impl FnOnce() + std::panic::UnwindSafe) {
    use std::io::Write;
    case_begin(case);
    let _ = std::io::stdout().flush();
    match std::panic::catch_unwind(f) {
        Ok(()) => case_end(case),
        Err(p) => {
            let msg = if let Some(s) = p.downcast_ref::<&str>() {
                s.to_string()
            } else if let Some(s) = p.downcast_ref::<String>() {
                s.clone()
            } else {
                "?".to_string()
            };
            println!("X\t{case}\t{}", hex(&msg));
        },
    }
    let _ = std::io::stdout().flush();
}

pub fn leak<X>(x: X) -> &'static X {
    Box::leak(Box::new(x))
}

pub fn leak_mut<X>(x: X) -> &'static mut X {
    Box::leak(Box::new(x))
}

/// key printed verbatim by the reference Debug shapes (map form without a name)
pub struct RawKey(pub &'static str);

impl fmt::Debug for RawKey {
    fn fmt(&self, f: &mut fmt::Formatter<'_>) -> fmt::Result {
        f.write_str(self.0)
    }
}

/// a field formatted through the custom method `fmt_alt`
pub struct ViaAlt<'a, X: Payload>(pub &'a X);

impl<'a, X: Payload> fmt::Debug for ViaAlt<'a, X> {
    fn fmt(&self, f: &mut fmt::Formatter<'_>) -> fmt::Result {
        fmt_alt(self.0, f)
    }
}

// ------------------------------------------------------------------------------------------------
// marker argument types for the bound probes (C11): `Yes` implements every trait educe can derive
// for a field, `No<Trait>` lacks exactly that trait (and the traits that have it as a supertrait)

macro_rules! marker {
    ($name:ident: $($tr:ident)*) => {
        pub struct $name;
        impl Payload for $name {
            fn a(&self) -> i8 { 0 }
            fn fp(&self, out: &mut String) { out.push_str(stringify!($name)); }
            fn clone_alt(&self) -> Self { $name }
            fn mkp(_: u8, _: u8, _: i8) -> Self { $name }
        }
        $( marker!(@impl $name $tr); )*
    };
    (@impl $name:ident Debug) => { impl fmt::Debug for $name { fn fmt(&self, f: &mut fmt::Formatter<'_>) -> fmt::Result { f.write_str(stringify!($name)) } } };
    (@impl $name:ident Clone) => { impl Clone for $name { fn clone(&self) -> Self { $name } } };
    (@impl $name:ident Copy) => { impl Copy for $name {} };
    (@impl $name:ident PartialEq) => { impl PartialEq for $name { fn eq(&self, _: &Self) -> bool { true } } };
    (@impl $name:ident Eq) => { impl Eq for $name {} };
    (@impl $name:ident PartialOrd) => { impl PartialOrd for $name { fn partial_cmp(&self, _: &Self) -> Option<Ordering> { Some(Ordering::Equal) } } };
    (@impl $name:ident Ord) => { impl Ord for $name { fn cmp(&self, _: &Self) -> Ordering { Ordering::Equal } } };
    (@impl $name:ident Hash) => { impl Hash for $name { fn hash<H: Hasher>(&self, _: &mut H) {} } };
    (@impl $name:ident Default) => { impl Default for $name { fn default() -> Self { $name } } };
    (@impl $name:ident Into) => {
        impl From<$name> for u8 { fn from(_: $name) -> u8 { 0 } }
        impl From<$name> for u16 { fn from(_: $name) -> u16 { 0 } }
        impl From<$name> for W { fn from(_: $name) -> W { W(0) } }
        impl From<$name> for T { fn from(_: $name) -> T { T::mk(0, 0, 0) } }
    };
}

marker!(Yes: Debug Clone Copy PartialEq Eq PartialOrd Ord Hash Default Into);
marker!(NoDebug: Clone Copy PartialEq Eq PartialOrd Ord Hash Default Into);
marker!(NoClone: Debug PartialEq Eq PartialOrd Ord Hash Default Into);
marker!(NoCopy: Debug Clone PartialEq Eq PartialOrd Ord Hash Default Into);
marker!(NoPartialEq: Debug Clone Copy Hash Default Into);
marker!(NoEq: Debug Clone Copy PartialEq PartialOrd Hash Default Into);
marker!(NoPartialOrd: Debug Clone Copy PartialEq Eq Hash Default Into);
marker!(NoOrd: Debug Clone Copy PartialEq Eq PartialOrd Hash Default Into);
marker!(NoHash: Debug Clone Copy PartialEq Eq PartialOrd Ord Default Into);
marker!(NoDefault: Debug Clone Copy PartialEq Eq PartialOrd Ord Hash Into);
marker!(NoInto: Debug Clone Copy PartialEq Eq PartialOrd Ord Hash Default);
