//! D2 in-process driver: expands derive inputs with educe built as an ordinary library
//! (`--cfg magiclen_educe_verif`) and reports one JSON line per input.
//!
//! usage: runner <input-file> [--repeat K] [--no-items]
//! input records:  "@@CASE <id> <nbytes>\n" followed by <nbytes> bytes of Rust source and "\n".
use std::{
    io::{Read, Write},
    panic,
    str::FromStr,
    sync::Mutex,
    time::Instant,
};

use proc_macro2::{Delimiter, TokenStream, TokenTree};
use quote::ToTokens;
use syn::{
    parse::{Parse, ParseStream},
    Generics, Token, Type, WhereClause,
};

static LAST_PANIC: Mutex<String> = Mutex::new(String::new());

fn esc(s: &str, out: &mut String) {
    out.push('"');
    for c in s.chars() {
        match c {
            '"' => out.push_str("\\\""),
            '\\' => out.push_str("\\\\"),
            '\n' => out.push_str("\\n"),
            '\r' => out.push_str("\\r"),
            '\t' => out.push_str("\\t"),
            c if (c as u32) < 0x20 => out.push_str(&format!("\\u{:04x}", c as u32)),
            c => out.push(c),
        }
    }
    out.push('"');
}

struct Hdr {
    generics: Generics,
    first:    Type,
    second:   Option<Type>,
    where_:   Option<WhereClause>,
}

impl Parse for Hdr {
    fn parse(input: ParseStream) -> syn::Result<Self> {
        input.parse::<Token![impl]>()?;
        let generics: Generics = input.parse()?;
        let first: Type = input.parse()?;
        let second = if input.peek(Token![for]) {
            input.parse::<Token![for]>()?;
            Some(input.parse::<Type>()?)
        } else {
            None
        };
        let where_: Option<WhereClause> = input.parse()?;
        if !input.is_empty() {
            return Err(input.error("trailing tokens in impl header"));
        }
        Ok(Hdr {
            generics,
            first,
            second,
            where_,
        })
    }
}

fn list(items: Vec<String>, out: &mut String) {
    out.push('[');
    for (i, s) in items.iter().enumerate() {
        if i > 0 {
            out.push(',');
        }
        esc(s, out);
    }
    out.push(']');
}

/// split a token stream into top-level items: an item ends at a top-level brace group or `;`
fn split_items(ts: TokenStream) -> Vec<(TokenStream, Option<TokenStream>)> {
    let mut items = Vec::new();
    let mut cur = TokenStream::new();
    for tt in ts {
        match &tt {
            TokenTree::Group(g) if g.delimiter() == Delimiter::Brace => {
                items.push((std::mem::take(&mut cur), Some(g.stream())));
            },
            TokenTree::Punct(p) if p.as_char() == ';' => {
                cur.extend(std::iter::once(tt));
                items.push((std::mem::take(&mut cur), None));
            },
            _ => cur.extend(std::iter::once(tt)),
        }
    }
    if !cur.is_empty() {
        items.push((cur, None));
    }
    items
}

/// impl headers nested anywhere inside a token stream (helper impls that the templates put into fn bodies)
fn nested_headers(ts: TokenStream, acc: &mut Vec<TokenStream>) {
    let mut cur: Option<TokenStream> = None;
    for tt in ts {
        match &tt {
            TokenTree::Ident(i) if i == "impl" && cur.is_none() => {
                let mut t = TokenStream::new();
                t.extend(std::iter::once(tt.clone()));
                cur = Some(t);
            },
            TokenTree::Group(g) => {
                if g.delimiter() == Delimiter::Brace {
                    if let Some(h) = cur.take() {
                        acc.push(h);
                    }
                } else if let Some(c) = cur.as_mut() {
                    c.extend(std::iter::once(tt.clone()));
                }
                nested_headers(g.stream(), acc);
            },
            TokenTree::Punct(p) if p.as_char() == ';' => {
                cur = None;
            },
            _ => {
                if let Some(c) = cur.as_mut() {
                    c.extend(std::iter::once(tt.clone()));
                }
            },
        }
    }
}

fn describe_header(hdr: TokenStream, out: &mut String) {
    match syn::parse2::<Hdr>(hdr) {
        Ok(h) => {
            let (tr, self_ty) = match h.second {
                Some(s) => (Some(h.first), s),
                None => (None, h.first),
            };
            out.push_str(",\"trait\":");
            match tr {
                Some(t) => esc(&t.to_token_stream().to_string(), out),
                None => out.push_str("null"),
            }
            out.push_str(",\"self\":");
            esc(&self_ty.to_token_stream().to_string(), out);
            out.push_str(",\"params\":");
            list(h.generics.params.iter().map(|p| p.to_token_stream().to_string()).collect(), out);
            out.push_str(",\"where\":");
            list(
                h.where_
                    .map(|w| w.predicates.iter().map(|p| p.to_token_stream().to_string()).collect())
                    .unwrap_or_default(),
                out,
            );
        },
        Err(e) => {
            out.push_str(",\"hdr_error\":");
            esc(&e.to_string(), out);
        },
    }
}

fn describe_items(ts: TokenStream, out: &mut String) {
    out.push('[');
    for (i, (hdr, body)) in split_items(ts).into_iter().enumerate() {
        if i > 0 {
            out.push(',');
        }
        out.push('{');
        out.push_str("\"hdr\":");
        esc(&hdr.to_string(), out);
        out.push_str(",\"body\":");
        match &body {
            Some(b) => esc(&b.to_string(), out),
            None => out.push_str("null"),
        }
        describe_header(hdr, out);
        if let Some(b) = &body {
            let mut acc = Vec::new();
            nested_headers(b.clone(), &mut acc);
            out.push_str(",\"nested\":[");
            for (k, h) in acc.into_iter().enumerate() {
                if k > 0 {
                    out.push(',');
                }
                out.push_str("{\"hdr\":");
                esc(&h.to_string(), out);
                describe_header(h, out);
                out.push('}');
            }
            out.push(']');
        }
        out.push('}');
    }
    out.push(']');
}

fn main() {
    let args: Vec<String> = std::env::args().collect();
    let mut repeat = 1usize;
    let mut want_items = true;
    let mut path = None;
    let mut i = 1;
    while i < args.len() {
        match args[i].as_str() {
            "--repeat" => {
                i += 1;
                repeat = args[i].parse().unwrap();
            },
            "--no-items" => want_items = false,
            p => path = Some(p.to_string()),
        }
        i += 1;
    }
    let mut data = Vec::new();
    std::fs::File::open(path.expect("input file")).unwrap().read_to_end(&mut data).unwrap();

    panic::set_hook(Box::new(|info| {
        let msg = if let Some(s) = info.payload().downcast_ref::<&str>() {
            s.to_string()
        } else if let Some(s) = info.payload().downcast_ref::<String>() {
            s.clone()
        } else {
            "<non-string panic payload>".to_string()
        };
        let loc = info.location().map(|l| format!("{}:{}", l.file(), l.line())).unwrap_or_default();
        *LAST_PANIC.lock().unwrap() = format!("{msg} @ {loc}");
    }));

    let stdout = std::io::stdout();
    let mut pos = 0usize;
    while pos < data.len() {
        // header line
        let nl = match data[pos..].iter().position(|&b| b == b'\n') {
            Some(n) => pos + n,
            None => break,
        };
        let header = std::str::from_utf8(&data[pos..nl]).unwrap();
        let mut parts = header.split(' ');
        assert_eq!(parts.next(), Some("@@CASE"), "bad header {header:?}");
        let id = parts.next().unwrap().to_string();
        let n: usize = parts.next().unwrap().parse().unwrap();
        let src = std::str::from_utf8(&data[nl + 1..nl + 1 + n]).unwrap().to_string();
        pos = nl + 1 + n + 1;

        let mut line = String::with_capacity(256);
        line.push_str("{\"id\":");
        esc(&id, &mut line);

        // announce the case first so that a crash (stack overflow / abort) can be attributed
        {
            let mut o = stdout.lock();
            writeln!(o, "{{\"begin\":\"{id}\"}}").unwrap();
            o.flush().unwrap();
        }

        let t0 = Instant::now();
        let mut first: Option<Result<String, String>> = None;
        let mut first_ts: Option<TokenStream> = None;
        let mut stable = true;
        let mut status = "ok";
        let mut msg = String::new();
        for _ in 0..repeat {
            let s = src.clone();
            let r = panic::catch_unwind(move || match TokenStream::from_str(&s) {
                Err(e) => Err(format!("LEX: {e}")),
                Ok(ts) => match educe::verif_expand(ts) {
                    Ok(out) => Ok(out),
                    Err(e) => {
                        let msgs: Vec<String> = e.into_iter().map(|e| e.to_string()).collect();
                        Err(msgs.join(" || "))
                    },
                },
            });
            match r {
                Err(_) => {
                    status = "panic";
                    msg = LAST_PANIC.lock().unwrap().clone();
                    break;
                },
                Ok(r) => {
                    let as_str = match &r {
                        Ok(ts) => Ok(ts.to_string()),
                        Err(e) => Err(e.clone()),
                    };
                    match &first {
                        None => {
                            if let Ok(ts) = r {
                                first_ts = Some(ts);
                            }
                            first = Some(as_str);
                        },
                        Some(f) => {
                            if *f != as_str {
                                stable = false;
                                msg = match as_str {
                                    Ok(s) => s,
                                    Err(s) => format!("ERR: {s}"),
                                };
                            }
                        },
                    }
                },
            }
        }
        let us = t0.elapsed().as_micros();
        if status != "panic" {
            match &first {
                Some(Ok(_)) => status = "ok",
                Some(Err(e)) => {
                    status = if e.starts_with("LEX: ") { "lex" } else { "err" };
                    if stable {
                        msg = e.clone();
                    }
                },
                None => unreachable!(),
            }
        }
        line.push_str(",\"st\":");
        esc(status, &mut line);
        line.push_str(",\"stable\":");
        line.push_str(if stable { "true" } else { "false" });
        line.push_str(",\"us\":");
        line.push_str(&us.to_string());
        line.push_str(",\"msg\":");
        esc(&msg, &mut line);
        if let Some(Ok(s)) = &first {
            line.push_str(",\"out\":");
            esc(s, &mut line);
            if want_items {
                line.push_str(",\"items\":");
                describe_items(first_ts.take().unwrap(), &mut line);
            }
        }
        line.push('}');
        let mut o = stdout.lock();
        writeln!(o, "{line}").unwrap();
        o.flush().unwrap();
    }
}
